#!/bin/bash
# Replays the recorded counterexample of every defect that was fixed in /repo (one per signature).
# Each must NOT reproduce on the current tree; exit 1 if any does.
set -u
here="$(cd "$(dirname "$0")" && pwd)"
. "$here/../checks/env.sh"
build_fmc || exit 2
rc=0
for f in "$here"/*.json; do
  out=$("$VERIF_ROOT/bin/fmc" replay "$f" 2>&1); code=$?
  echo "$(basename "$f"): exit=$code $(echo "$out" | head -1 | cut -c1-160)"
  [ $code -ne 0 ] && rc=1
done
exit $rc
