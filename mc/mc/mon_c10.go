package mc

import (
	"fmt"

	"verif/mc/ref"
	"verif/mc/world"
)

// C10 — only allow-listed accounts bid; no transaction message can add or change an allow-list
// entry in a default build (this process links the application exactly like cmd/fundraisingd does:
// it imports app and nothing from testutil or x/fundraising/simulation directly).
type monC10 struct{ st *Stats }

func NewC10() Monitor           { return &monC10{st: NewStats()} }
func (m *monC10) Prop() string  { return "C10" }
func (m *monC10) Stats() *Stats { return m.st }

func allowRaw(s *ref.State) string {
	o := ""
	for _, a := range s.Auctions {
		for _, al := range s.Allowed[a.ID] {
			o += fmt.Sprintf("%d/%s=%s|", a.ID, al.Bidder, al.Raw)
		}
	}
	return o
}

func (m *monC10) OnTransition(t *Transition) []Violation {
	var vs []Violation
	bad := func(sig, f string, a ...any) {
		vs = append(vs, Violation{Prop: "C10", Sig: sig, Detail: fmt.Sprintf(f, a...)})
	}
	switch t.Op.Kind {
	case "msg_add_allowed":
		m.st.Inc("msg_add_allowed_delivered")
		a := t.Pre.Auction(t.Op.AID)
		cls := "no-auction"
		if a != nil {
			cls = ref.StatusName(a.Status)
			if t.Pre.AllowedOf(a.ID, addrOf(t.Op.Bidder)) != nil {
				cls += "/already-listed"
			} else {
				cls += "/not-listed"
			}
		}
		m.st.Case("msg", cls+"|"+t.Op.Bidder+"|"+t.Pre.RawModule)
		m.st.Inc("msg_add_allowed/" + cls)
		if t.Res.OK() {
			bad("message-adds-allow-list-entry", "MsgAddAllowedBidder{auction %d, bidder %s, max %s} signed by %s itself is accepted by the message router in a default-linked process (auction %s)", t.Op.AID, t.Op.Bidder, t.Op.Max, t.Op.Bidder, cls)
		}
		if allowRaw(t.Pre) != allowRaw(t.Post) {
			bad("allow-list-changed-by-message", "the allow-list differs after %v", t.Op)
		}
		m.st.Sample(map[string]any{"history": opsStr(t.History()), "result": okStr(t.Res)})
	case "add_allowed", "update_allowed":
		// the programming interface for other modules: allowed to change the list
	default:
		if allowRaw(t.Pre) != allowRaw(t.Post) {
			bad("allow-list-changed-by/"+t.Op.Kind, "the allow-list differs after %v", t.Op)
		}
	}
	if t.Op.Kind == "place" && t.Res.OK() {
		m.st.Inc("accepted_bids")
		if t.Pre.AllowedOf(t.Op.AID, addrOf(t.Op.Signer)) == nil {
			bad("bid-by-unlisted-account", "%v accepted although %s is not on the allow-list of auction %d at that moment", t.Op, t.Op.Signer, t.Op.AID)
		}
	}
	if t.Op.Kind == "place" && !t.Res.OK() && t.Pre.Auction(t.Op.AID) != nil && t.Pre.AllowedOf(t.Op.AID, addrOf(t.Op.Signer)) == nil {
		m.st.Inc("bids_by_unlisted_accounts_rejected")
	}
	for aid, bids := range t.Post.Bids {
		for _, b := range bids {
			if t.Post.AllowedOf(aid, b.Bidder) == nil {
				bad("stored-bid-without-allow-list-entry", "bid #%d of auction %d belongs to %s who has no allow-list entry (after %v)", b.ID, aid, world.NameOf(b.Bidder), t.Op)
			}
		}
	}
	return vs
}

// c10SignedTx is the Post step of the C10 plan: MsgAddAllowedBidder really signed by the would-be
// bidder is delivered through InitChain / FinalizeBlock / Commit in several situations (auction waiting,
// open, already listed, outsider) and the node must refuse every one of them, exactly like the emulation.
func c10SignedTx(p *Plan, o ExecOpts, rs []*RunResult, ev *Evidence) ([]Violation, error) {
	cfg := world.Config{Balances: stdBalances(), Params: params("2bcoin", "1bcoin", 1)}
	fixedW := Op{Kind: "create_fixed", Signer: "auc1", StartPrice: "2", Sell: "10acoin", PayDenom: "bcoin", StartK: 1, EndK: 2}
	batchO := Op{Kind: "create_batch", Signer: "auc1", StartPrice: "1", MinPrice: "0.5", Sell: "10acoin", PayDenom: "bcoin", StartK: 0, EndK: 2, MaxExt: 1, Rate: "0.5"}
	msg := func(aid uint64, who, max string) Op {
		return Op{Kind: "msg_add_allowed", AID: aid, Bidder: who, Max: max}
	}
	hists := [][]Op{
		{fixedW, msg(0, "bid1", "5"), {Kind: "block", K: 1}, msg(0, "bid1", "5"), msg(0, "out1", "1"), {Kind: "place", Signer: "bid1", AID: 0, BidType: 1, Price: "2", Denom: "bcoin", Amt: "4"}, {Kind: "block", K: 2}},
		{batchO, {Kind: "add_allowed", AID: 0, Bidder: "bid1", Max: "4"}, msg(0, "bid1", "10"), msg(0, "bid2", "10"),
			{Kind: "place", Signer: "bid2", AID: 0, BidType: 3, Price: "1", Denom: "acoin", Amt: "3"}, {Kind: "place", Signer: "bid1", AID: 0, BidType: 3, Price: "1", Denom: "acoin", Amt: "3"}, {Kind: "block", K: 2}, msg(0, "bid2", "10"), {Kind: "block", K: 3}, msg(0, "bid2", "1")},
		{msg(0, "bid1", "5"), fixedW, batchO, msg(1, "out1", "10"), msg(7, "bid1", "1")},
	}
	var vs []Violation
	refused, accepted, blocks := 0, 0, 0
	for _, h := range hists {
		r := ReplayABCI(cfg, h)
		if r.Err != "" {
			return nil, fmt.Errorf("the emulation does not conform to the real ABCI pipeline on a C10 history (harness defect, not a verdict): %s", r.Err)
		}
		refused += r.Refused["msg_add_allowed"]
		accepted += r.Accepted["msg_add_allowed"]
		blocks += r.Blocks
	}
	if accepted > 0 {
		vs = append(vs, Violation{Prop: "C10", Sig: "signed-transaction-adds-allow-list-entry", Detail: fmt.Sprintf("%d really signed MsgAddAllowedBidder transactions were accepted (code 0) by FinalizeBlock in a process that links the application like the node binary does", accepted)})
	}
	ev.Coverage["signed_msg_add_allowed_bidder_txs_refused_by_finalize_block"] = refused
	ev.Coverage["signed_msg_add_allowed_bidder_txs_accepted"] = accepted
	ev.Coverage["signed_tx_histories"] = len(hists)
	return vs, nil
}

func init() { c10Binary = c10SignedTx }
