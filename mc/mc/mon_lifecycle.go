package mc

import (
	"fmt"
	"math/big"
	"time"

	"verif/mc/ref"
	"verif/mc/world"
)

func isBlock(op Op) bool { return op.Kind == "block" || op.Kind == "tick" }

// hasFunds: balance covers need in every denomination.
func hasFunds(s *ref.State, addr string, need ref.Coins) bool {
	for d, v := range need {
		if s.BalOf(addr, d).Cmp(v) < 0 {
			return false
		}
	}
	return true
}

func addCoins(a ref.Coins, d string, v *big.Int) ref.Coins {
	out := ref.Coins{}
	for k, x := range a {
		out[k] = new(big.Int).Set(x)
	}
	out[d] = ref.Add(out.Get(d), v)
	return out
}

// -------------------------------------------------------------------------------------------
// C06 — fixed price: first-come-first-served against an exact remainder.
// -------------------------------------------------------------------------------------------

type monC06 struct{ st *Stats }

func NewC06() Monitor           { return &monC06{st: NewStats()} }
func (m *monC06) Prop() string  { return "C06" }
func (m *monC06) Stats() *Stats { return m.st }

// FixedBidAccepts is the reference acceptance predicate of C06 (well-formed message assumed).
func FixedBidAccepts(s *ref.State, a *ref.Auction, bidder string, bidType int, price *big.Rat, denom string, amt *big.Int) (bool, string) {
	if a.Status != ref.StatusStarted {
		return false, "not-open"
	}
	if bidType != ref.BidFixed {
		return false, "bid-kind"
	}
	if denom != a.PayDenom && denom != a.SellDenom {
		return false, "denom"
	}
	if price.Cmp(a.StartPrice) != 0 {
		return false, "price"
	}
	al := s.AllowedOf(a.ID, bidder)
	if al == nil {
		return false, "not-listed"
	}
	nb := &ref.Bid{Type: bidType, Price: price, Denom: denom, Amt: amt}
	conv := ref.SellingAmount(nb, a.PayDenom)
	if a.Remaining.Cmp(conv) < 0 {
		return false, "remainder"
	}
	sum := new(big.Int).Set(conv)
	for _, b := range s.Bids[a.ID] {
		if b.Bidder == bidder {
			sum.Add(sum, ref.SellingAmount(b, a.PayDenom))
		}
	}
	if sum.Cmp(al.Max) > 0 {
		return false, "allowance"
	}
	need := addCoins(s.BidFee, a.PayDenom, ref.RequiredReservation(nb, a.PayDenom))
	if !hasFunds(s, bidder, need) {
		return false, "funds"
	}
	return true, "ok"
}

func (m *monC06) OnTransition(t *Transition) []Violation {
	var vs []Violation
	bad := func(sig, f string, a ...any) {
		vs = append(vs, Violation{Prop: "C06", Sig: sig, Detail: fmt.Sprintf(f, a...)})
	}
	if t.Op.Kind == "place" && t.Res.Stage != "validate_basic" {
		a := t.Pre.Auction(t.Op.AID)
		if a != nil && a.Type == ref.TypeFixed {
			want, why := FixedBidAccepts(t.Pre, a, addrOf(t.Op.Signer), t.Op.BidType, ref.R(t.Op.Price), t.Op.Denom, big0(t.Op.Amt))
			got := t.Res.OK()
			m.st.Inc("decisions")
			m.st.Inc("decision/" + why)
			m.st.Case("decision", fmt.Sprintf("%s|%s|%s|%s|%s|rem=%s", why, t.Op.Signer, t.Op.Denom, t.Op.Amt, ratStr(a.StartPrice), a.Remaining))
			if want != got {
				if want {
					bad("rejected-although-conditions-hold", "%v rejected (%s) although open, at the fixed price, listed with allowance, remainder %s covers it", t.Op, t.Res.ErrStr, a.Remaining)
				} else {
					bad("accepted-although-"+why, "%v accepted although the reference says %s (remainder %s)", t.Op, why, a.Remaining)
				}
			}
			if got {
				nb := &ref.Bid{Type: t.Op.BidType, Price: ref.R(t.Op.Price), Denom: t.Op.Denom, Amt: big0(t.Op.Amt)}
				conv := ref.SellingAmount(nb, a.PayDenom)
				if conv.Cmp(a.Remaining) == 0 && conv.Sign() > 0 {
					m.st.Inc("bids_exactly_exhausting_remainder")
				}
				if conv.Sign() == 0 {
					m.st.Inc("accepted_bids_converting_to_zero")
				}
				m.st.Sample(map[string]any{"history": opsStr(t.History()), "remainder_before": a.Remaining.String(), "converted": conv.String()})
			}
		}
	}
	// published remainder in every state
	for _, a := range t.Post.Auctions {
		if a.Type != ref.TypeFixed || a.Status == ref.StatusCancelled {
			continue
		}
		sum := new(big.Int)
		for _, b := range t.Post.Bids[a.ID] {
			sum.Add(sum, ref.SellingAmount(b, a.PayDenom))
		}
		want := ref.Sub(a.SellAmt, sum)
		if a.Remaining.Cmp(want) != 0 || a.RemainingDenom != a.SellDenom {
			bad("published-remainder", "auction %d publishes remainder %s%s, offered %s minus accepted %s = %s (after %v)", a.ID, a.Remaining, a.RemainingDenom, a.SellAmt, sum, want, t.Op)
		}
		if want.Sign() < 0 {
			bad("oversold", "auction %d accepted bids for %s of %s", a.ID, sum, a.SellAmt)
		}
	}
	// earlier bids are never displaced or scaled: a recorded fixed-price bid never changes
	for aid, bids := range t.Pre.Bids {
		a := t.Pre.Auction(aid)
		if a == nil || a.Type != ref.TypeFixed {
			continue
		}
		for _, b := range bids {
			nb := t.Post.Bid(aid, b.ID)
			if nb == nil {
				bad("bid-removed", "bid #%d of auction %d disappeared after %v", b.ID, aid, t.Op)
			} else if nb.Price.Cmp(b.Price) != 0 || nb.Amt.Cmp(b.Amt) != 0 || nb.Denom != b.Denom || nb.Bidder != b.Bidder {
				bad("bid-changed", "bid #%d of auction %d changed after %v", b.ID, aid, t.Op)
			}
		}
	}
	return vs
}

// -------------------------------------------------------------------------------------------
// C08 — lifecycle only moves forward, at the right block.
// -------------------------------------------------------------------------------------------

type monC08 struct{ st *Stats }

func NewC08() Monitor           { return &monC08{st: NewStats()} }
func (m *monC08) Prop() string  { return "C08" }
func (m *monC08) Stats() *Stats { return m.st }

func timesEq(a, b []time.Time) bool {
	if len(a) != len(b) {
		return false
	}
	for i := range a {
		if !a[i].Equal(b[i]) {
			return false
		}
	}
	return true
}

func (m *monC08) OnTransition(t *Transition) []Violation {
	var vs []Violation
	bad := func(sig, f string, a ...any) {
		vs = append(vs, Violation{Prop: "C08", Sig: sig, Detail: fmt.Sprintf(f, a...)})
	}
	now := t.Post.Time
	for _, a := range t.Pre.Auctions {
		pa := t.Post.Auction(a.ID)
		if pa == nil {
			bad("auction-removed", "auction %d disappeared after %v", a.ID, t.Op)
			continue
		}
		want := a.Status
		wantEnds := a.EndTimes
		cls := "frame"
		switch {
		case isBlock(t.Op):
			step := ref.StepOf(t.Pre, a, now)
			cls = "block/" + ref.StatusName(a.Status) + "/" + step.Kind.String() + "/" + boundary(a, t.Pre, now)
			switch step.Kind {
			case ref.StepOpen:
				want = ref.StatusStarted
			case ref.StepSettle:
				if len(a.Schedules) > 0 {
					want = ref.StatusVesting
				} else {
					want = ref.StatusFinished
				}
			case ref.StepExtend:
				wantEnds = append(append([]time.Time{}, a.EndTimes...), step.NewEnd)
			case ref.StepRelease:
				if step.Finishes {
					want = ref.StatusFinished
				}
			}
		case t.Op.Kind == "cancel" && t.Res.OK() && t.Op.AID == a.ID:
			want = ref.StatusCancelled
			cls = "cancel"
			if a.Status != ref.StatusStandBy {
				bad("cancel-accepted-when-"+ref.StatusName(a.Status), "%v accepted on an auction that is %s", t.Op, ref.StatusName(a.Status))
			}
		}
		if pa.Status != want {
			bad("status/"+cls, "auction %d (%s at the start) is %s after %v at %s; expected %s", a.ID, ref.StatusName(a.Status), ref.StatusName(pa.Status), t.Op, now.Format(time.RFC3339), ref.StatusName(want))
		}
		if !timesEq(pa.EndTimes, wantEnds) {
			bad("end-times/"+cls, "auction %d end times %v after %v; expected %v", a.ID, pa.EndTimes, t.Op, wantEnds)
		}
		if !pa.Start.Equal(a.Start) {
			bad("start-time-changed", "auction %d start time changed after %v", a.ID, t.Op)
		}
		m.st.Inc("auction_steps_checked")
		if isBlock(t.Op) {
			m.st.Inc(cls)
			if pa.Status != a.Status || len(pa.EndTimes) != len(a.EndTimes) {
				m.st.Case("lifecycle-step", cls+"|"+t.Pre.RawModule)
				m.st.Sample(map[string]any{"history": opsStr(t.History()), "auction": a.ID, "step": cls, "status_after": ref.StatusName(pa.Status)})
			}
		}
	}
	// creation
	if (t.Op.Kind == "create_fixed" || t.Op.Kind == "create_batch") && t.Res.OK() {
		na := t.Post.Auction(t.Pre.NextAuctionID)
		if na == nil {
			bad("creation-no-record", "%v accepted but auction %d is not stored", t.Op, t.Pre.NextAuctionID)
		} else {
			want := ref.StatusStandBy
			if !world.Instant(t.Op.StartK).After(t.Pre.Time) {
				want = ref.StatusStarted
			}
			if na.Status != want {
				bad("creation-status", "%v at %s creates the auction %s; expected %s", t.Op, t.Pre.Time.Format(time.RFC3339), ref.StatusName(na.Status), ref.StatusName(want))
			}
			m.st.Inc("creations/" + ref.StatusName(want))
		}
	}
	// bids and modifications only while open
	if (t.Op.Kind == "place" || t.Op.Kind == "modify") && t.Res.Stage != "validate_basic" {
		if a := t.Pre.Auction(t.Op.AID); a != nil {
			m.st.Inc(t.Op.Kind + "_in_" + ref.StatusName(a.Status))
			if t.Res.OK() && a.Status != ref.StatusStarted {
				bad(t.Op.Kind+"-accepted-when-"+ref.StatusName(a.Status), "%v accepted although the auction is %s", t.Op, ref.StatusName(a.Status))
			}
		}
	}
	return vs
}

// boundary classifies the block time against the auction's next deadline: before / at / after.
func boundary(a *ref.Auction, s *ref.State, now time.Time) string {
	var dl time.Time
	switch a.Status {
	case ref.StatusStandBy:
		dl = a.Start
	case ref.StatusStarted:
		dl = a.LastEnd()
	case ref.StatusVesting:
		for _, q := range s.VQs[a.ID] {
			if !q.Released {
				dl = q.Release
				break
			}
		}
	default:
		return "terminal"
	}
	switch {
	case now.Before(dl):
		return "before"
	case now.Equal(dl):
		return "exactly-at"
	default:
		return "after"
	}
}

// -------------------------------------------------------------------------------------------
// C09 — vesting pays exactly the proceeds, on schedule, exactly once.
// -------------------------------------------------------------------------------------------

type monC09 struct{ st *Stats }

func NewC09() Monitor           { return &monC09{st: NewStats()} }
func (m *monC09) Prop() string  { return "C09" }
func (m *monC09) Stats() *Stats { return m.st }

func (m *monC09) OnTransition(t *Transition) []Violation {
	var vs []Violation
	bad := func(sig, f string, a ...any) {
		vs = append(vs, Violation{Prop: "C09", Sig: sig, Detail: fmt.Sprintf(f, a...)})
	}
	now := t.Post.Time
	trs := Transfers(t.Res.Events)
	for _, a := range t.Pre.Auctions {
		pre := t.Pre.VQs[a.ID]
		post := t.Post.VQs[a.ID]
		step := ref.Step{}
		if isBlock(t.Op) {
			step = ref.StepOf(t.Pre, a, now)
		}
		switch step.Kind {
		case ref.StepSettle:
			// proceeds = what left the paying escrow towards the vesting escrow / the auctioneer
			proceeds := new(big.Int)
			toAuctioneer := new(big.Int)
			for _, tr := range trs {
				if tr.From == a.PayAddr && tr.To == a.VestAddr {
					proceeds.Add(proceeds, tr.Coins.Get(a.PayDenom))
				}
				if tr.From == a.PayAddr && tr.To == a.Auctioneer {
					toAuctioneer.Add(toAuctioneer, tr.Coins.Get(a.PayDenom))
				}
			}
			if len(a.Schedules) == 0 {
				if len(post) != 0 {
					bad("instalments-without-schedule", "auction %d has no schedule but %d instalments were created", a.ID, len(post))
				}
				if proceeds.Sign() != 0 {
					bad("vesting-escrow-without-schedule", "auction %d has no schedule but %s went to the vesting escrow", a.ID, proceeds)
				}
				m.st.Inc("settlements_without_schedule")
				continue
			}
			if toAuctioneer.Sign() != 0 {
				bad("proceeds-bypass-schedule", "auction %d has a schedule but %s was paid to the auctioneer at settlement", a.ID, toAuctioneer)
			}
			want := ref.Instalments(proceeds, a.Schedules)
			if len(post) != len(want) {
				bad("instalment-count", "auction %d: %d instalments stored for a schedule of %d", a.ID, len(post), len(want))
				continue
			}
			sum := new(big.Int)
			for i, q := range post {
				sum.Add(sum, q.Amt)
				if q.Amt.Cmp(want[i]) != 0 {
					bad("instalment-amount", "auction %d proceeds %s: instalment %d is %s, expected %s (weight %s)", a.ID, proceeds, i, q.Amt, want[i], a.Schedules[i].Weight.FloatString(18))
				}
				if !q.Release.Equal(a.Schedules[i].Release) {
					bad("instalment-release-time", "auction %d instalment %d released at %v, schedule says %v", a.ID, i, q.Release, a.Schedules[i].Release)
				}
				if q.Released {
					bad("instalment-born-released", "auction %d instalment %d is flagged released at settlement", a.ID, i)
				}
				if q.Denom != a.PayDenom || q.Auctioneer != a.Auctioneer || q.AID != a.ID {
					bad("instalment-fields", "auction %d instalment %d has wrong denom/auctioneer/auction", a.ID, i)
				}
			}
			if sum.Cmp(proceeds) != 0 {
				bad("instalments-do-not-sum-to-proceeds", "auction %d: instalments sum to %s, proceeds %s", a.ID, sum, proceeds)
			}
			m.st.Inc("splits_checked")
			sh := ""
			for _, s := range a.Schedules {
				sh += s.Weight.FloatString(18) + ","
			}
			m.st.Case("split", fmt.Sprintf("%s|%s", proceeds, sh))
			if proceeds.Cmp(big.NewInt(int64(len(want)))) < 0 {
				m.st.Inc("splits_with_proceeds_below_instalment_count")
			}
			m.st.Sample(map[string]any{"proceeds": proceeds.String(), "weights": sh, "instalments": fmt.Sprint(want)})
		case ref.StepRelease:
			paid := new(big.Int)
			for _, tr := range trs {
				if tr.From == a.VestAddr && tr.To == a.Auctioneer {
					paid.Add(paid, tr.Coins.Get(a.PayDenom))
				} else if tr.From == a.VestAddr {
					bad("vesting-escrow-paid-someone-else", "vesting escrow of auction %d paid %s", a.ID, world.NameOf(tr.To))
				}
			}
			due := new(big.Int)
			for i, q := range pre {
				isDue := false
				for _, d := range step.Due {
					if d == i {
						isDue = true
					}
				}
				if i >= len(post) {
					bad("instalment-removed", "auction %d lost instalment %d", a.ID, i)
					continue
				}
				if isDue {
					due.Add(due, q.Amt)
					if !post[i].Released {
						bad("due-instalment-not-released", "auction %d instalment %d (release %v) is due at %v but stays unreleased", a.ID, i, q.Release, now)
					}
				} else if post[i].Released != q.Released {
					bad("instalment-flag-flipped-early", "auction %d instalment %d (release %v) changed its released flag at %v", a.ID, i, q.Release, now)
				}
				if post[i].Amt.Cmp(q.Amt) != 0 || !post[i].Release.Equal(q.Release) {
					bad("instalment-rewritten", "auction %d instalment %d changed amount or time", a.ID, i)
				}
			}
			if paid.Cmp(due) != 0 {
				bad("release-amount", "auction %d pays %s to the auctioneer at %v; due and unreleased: %s", a.ID, paid, now, due)
			}
			m.st.Inc("release_blocks")
			if len(step.Due) > 1 {
				m.st.Inc("release_blocks_covering_several_instalments")
			}
			m.st.Case("release", fmt.Sprintf("%s|%v|%s", t.Pre.RawModule, step.Due, now))
		default:
			// no vesting step for this auction in this transition: instalments are frozen and the
			// vesting escrow pays nobody
			if len(pre) != len(post) {
				bad("instalments-changed-outside-step", "auction %d: instalment count %d -> %d after %v", a.ID, len(pre), len(post), t.Op)
			} else {
				for i := range pre {
					if pre[i].Raw != post[i].Raw {
						bad("instalment-changed-outside-step", "auction %d instalment %d changed after %v", a.ID, i, t.Op)
					}
				}
			}
			for _, tr := range trs {
				if tr.From == a.VestAddr {
					bad("vesting-escrow-paid-outside-step", "vesting escrow of auction %d paid %s after %v", a.ID, tr.Coins, t.Op)
				}
			}
		}
	}
	return vs
}

// -------------------------------------------------------------------------------------------
// C11 — bids only grow, only by their owner, never removed.
// -------------------------------------------------------------------------------------------

type monC11 struct{ st *Stats }

func NewC11() Monitor           { return &monC11{st: NewStats()} }
func (m *monC11) Prop() string  { return "C11" }
func (m *monC11) Stats() *Stats { return m.st }

// ModifyAccepts is the reference acceptance predicate of C11 (well-formed message assumed).
func ModifyAccepts(s *ref.State, op Op) (bool, string) {
	a := s.Auction(op.AID)
	if a == nil {
		return false, "no-auction"
	}
	if a.Status != ref.StatusStarted {
		return false, "not-open"
	}
	if a.Type != ref.TypeBatch {
		return false, "not-batch"
	}
	b := s.Bid(op.AID, op.BidID)
	if b == nil {
		return false, "no-bid"
	}
	if b.Bidder != addrOf(op.Signer) {
		return false, "not-owner"
	}
	price, amt := ref.R(op.Price), big0(op.Amt)
	if price.Cmp(a.MinBidPrice) < 0 {
		return false, "below-floor"
	}
	if op.Denom != b.Denom {
		return false, "denom"
	}
	if price.Cmp(b.Price) < 0 || amt.Cmp(b.Amt) < 0 {
		return false, "lower"
	}
	if price.Cmp(b.Price) == 0 && amt.Cmp(b.Amt) == 0 {
		return false, "unchanged"
	}
	nb := &ref.Bid{Type: b.Type, Price: price, Denom: b.Denom, Amt: amt}
	diff := ref.Sub(ref.RequiredReservation(nb, a.PayDenom), ref.RequiredReservation(b, a.PayDenom))
	if diff.Sign() > 0 && s.BalOf(b.Bidder, a.PayDenom).Cmp(diff) < 0 {
		return false, "funds"
	}
	return true, "ok"
}

func (m *monC11) OnTransition(t *Transition) []Violation {
	var vs []Violation
	bad := func(sig, f string, a ...any) {
		vs = append(vs, Violation{Prop: "C11", Sig: sig, Detail: fmt.Sprintf(f, a...)})
	}
	if t.Op.Kind == "modify" && t.Res.Stage != "validate_basic" {
		want, why := ModifyAccepts(t.Pre, t.Op)
		got := t.Res.OK()
		m.st.Inc("decisions")
		m.st.Inc("decision/" + why)
		m.st.Case("decision", fmt.Sprintf("%s|%s|%s|%s|%s", why, t.Op.Signer, t.Op.Price, t.Op.Amt, t.Op.Denom))
		if want != got {
			if want {
				bad("rejected-valid-modification", "%v rejected (%s) although every condition holds", t.Op, t.Res.ErrStr)
			} else {
				bad("accepted-although-"+why, "%v accepted although the reference says %s", t.Op, why)
			}
		}
		if got {
			a := t.Pre.Auction(t.Op.AID)
			old := t.Pre.Bid(t.Op.AID, t.Op.BidID)
			nb := t.Post.Bid(t.Op.AID, t.Op.BidID)
			if old != nil && nb != nil && a != nil {
				if nb.Type != old.Type || nb.Denom != old.Denom || nb.Bidder != old.Bidder || nb.AID != old.AID || nb.ID != old.ID {
					bad("identity-changed", "%v changed type/denom/owner/ids of the bid", t.Op)
				}
				if nb.Price.Cmp(ref.R(t.Op.Price)) != 0 || nb.Amt.Cmp(big0(t.Op.Amt)) != 0 {
					bad("not-applied", "%v accepted but the bid now reads %v", t.Op, nb)
				}
				diff := ref.Sub(ref.RequiredReservation(nb, a.PayDenom), ref.RequiredReservation(old, a.PayDenom))
				payer := ref.Sub(t.Pre.BalOf(old.Bidder, a.PayDenom), t.Post.BalOf(old.Bidder, a.PayDenom))
				esc := ref.Sub(t.Post.BalOf(a.PayAddr, a.PayDenom), t.Pre.BalOf(a.PayAddr, a.PayDenom))
				if payer.Cmp(diff) != 0 || esc.Cmp(diff) != 0 {
					bad("charge-differs-from-reservation-increase", "%v: reservation rises by %s, owner pays %s, escrow receives %s", t.Op, diff, payer, esc)
				}
				m.st.Sample(map[string]any{"history": opsStr(t.History()), "old": old.String(), "new": nb.String(), "charged": diff.String()})
			}
		}
	}
	// every transition: bids never disappear; no reservation shrinks while the auction stays open
	for aid, bids := range t.Pre.Bids {
		a := t.Pre.Auction(aid)
		pa := t.Post.Auction(aid)
		for _, b := range bids {
			nb := t.Post.Bid(aid, b.ID)
			if nb == nil {
				bad("bid-removed", "bid #%d of auction %d disappeared after %v", b.ID, aid, t.Op)
				continue
			}
			if a != nil && pa != nil && a.Status == ref.StatusStarted && pa.Status == ref.StatusStarted {
				if ref.RequiredReservation(nb, a.PayDenom).Cmp(ref.RequiredReservation(b, a.PayDenom)) < 0 {
					bad("reservation-lowered", "bid #%d of auction %d needs less reservation after %v", b.ID, aid, t.Op)
				}
				if nb.Price.Cmp(b.Price) < 0 || nb.Amt.Cmp(b.Amt) < 0 {
					bad("bid-lowered", "bid #%d of auction %d was lowered by %v", b.ID, aid, t.Op)
				}
			}
			if nb.Bidder != b.Bidder || nb.Type != b.Type || nb.Denom != b.Denom {
				bad("bid-identity-changed", "bid #%d of auction %d changed owner/type/denom after %v", b.ID, aid, t.Op)
			}
			if (nb.Price.Cmp(b.Price) != 0 || nb.Amt.Cmp(b.Amt) != 0) && !(t.Op.Kind == "modify" && t.Res.OK() && t.Op.AID == aid && t.Op.BidID == b.ID) {
				bad("bid-changed-by-other-op", "bid #%d of auction %d changed price/amount after %v", b.ID, aid, t.Op)
			}
		}
	}
	return vs
}

// -------------------------------------------------------------------------------------------
// C12 — only the auctioneer cancels, only before opening, full refund.
// -------------------------------------------------------------------------------------------

type monC12 struct{ st *Stats }

func NewC12() Monitor           { return &monC12{st: NewStats()} }
func (m *monC12) Prop() string  { return "C12" }
func (m *monC12) Stats() *Stats { return m.st }

func (m *monC12) OnTransition(t *Transition) []Violation {
	var vs []Violation
	bad := func(sig, f string, a ...any) {
		vs = append(vs, Violation{Prop: "C12", Sig: sig, Detail: fmt.Sprintf(f, a...)})
	}
	if t.Op.Kind == "cancel" && t.Res.Stage != "validate_basic" {
		a := t.Pre.Auction(t.Op.AID)
		want := a != nil && a.Auctioneer == addrOf(t.Op.Signer) && a.Status == ref.StatusStandBy
		got := t.Res.OK()
		cls := "no-auction"
		if a != nil {
			who := "stranger"
			if a.Auctioneer == addrOf(t.Op.Signer) {
				who = "auctioneer"
			}
			cls = who + "/" + ref.StatusName(a.Status) + "/" + relStart(a, t.Pre.Time)
		}
		m.st.Inc("decisions")
		m.st.Inc("decision/" + cls)
		m.st.Case("decision", cls+"|"+t.Pre.RawModule)
		if want != got {
			if want {
				bad("rejected-valid-cancel", "%v rejected (%s) although signed by the auctioneer of a waiting auction", t.Op, t.Res.ErrStr)
			} else {
				bad("accepted/"+cls, "%v accepted (%s)", t.Op, cls)
			}
		}
		if got && a != nil && !t.Pre.Time.Before(a.Start) {
			// "only while it is still waiting to open": a transaction always runs after its block's hook, and
			// the hook opens every auction whose start time has come, so an accepted cancel at or after the
			// start time means the auction was left waiting when it had to open.
			bad("cancelled-at-or-after-start-time", "%v accepted at %s although the auction's start time %s has come (it should have opened and be uncancellable)", t.Op, t.Pre.Time.UTC().Format(time.RFC3339), a.Start.UTC().Format(time.RFC3339))
		}
		if got && a != nil {
			pa := t.Post.Auction(a.ID)
			back := ref.Sub(t.Post.BalOf(a.Auctioneer, a.SellDenom), t.Pre.BalOf(a.Auctioneer, a.SellDenom))
			if back.Cmp(a.SellAmt) < 0 {
				bad("refund-short", "%v returns %s of %s offered", t.Op, back, a.SellAmt)
			}
			if t.Post.BalOf(a.SellAddr, a.SellDenom).Sign() != 0 {
				bad("escrow-not-emptied", "%v leaves %s in the selling escrow", t.Op, t.Post.BalOf(a.SellAddr, a.SellDenom))
			}
			if pa.Status != ref.StatusCancelled {
				bad("status-after-cancel", "%v leaves the auction %s", t.Op, ref.StatusName(pa.Status))
			}
			if a.Type == ref.TypeFixed && (pa.Remaining.Sign() != 0) {
				bad("remainder-not-zeroed", "%v leaves a published remainder of %s", t.Op, pa.Remaining)
			}
			m.st.Sample(map[string]any{"history": opsStr(t.History()), "returned": back.String()})
		}
	}
	// cancelled is permanent, and only a cancel message produces it
	for _, a := range t.Pre.Auctions {
		pa := t.Post.Auction(a.ID)
		if pa == nil {
			continue
		}
		if a.Status == ref.StatusCancelled && pa.Status != ref.StatusCancelled {
			bad("cancelled-not-permanent", "auction %d left the cancelled status after %v", a.ID, t.Op)
		}
		if a.Status != ref.StatusCancelled && pa.Status == ref.StatusCancelled && !(t.Op.Kind == "cancel" && t.Res.OK() && t.Op.AID == a.ID) {
			bad("cancelled-without-cancel", "auction %d became cancelled after %v", a.ID, t.Op)
		}
	}
	return vs
}

func relStart(a *ref.Auction, now time.Time) string {
	switch {
	case now.Before(a.Start):
		return "before-start"
	case now.Equal(a.Start):
		return "at-start"
	default:
		return "after-start"
	}
}

// -------------------------------------------------------------------------------------------
// C13 — extended rounds follow the anti-sniping rule and are bounded.
// -------------------------------------------------------------------------------------------

type monC13 struct {
	st   *Stats
	seen map[string]bool
}

func NewC13() Monitor           { return &monC13{st: NewStats(), seen: map[string]bool{}} }
func (m *monC13) Prop() string  { return "C13" }
func (m *monC13) Stats() *Stats { return m.st }

func (m *monC13) OnTransition(t *Transition) []Violation {
	var vs []Violation
	bad := func(sig, f string, a ...any) {
		vs = append(vs, Violation{Prop: "C13", Sig: sig, Detail: fmt.Sprintf(f, a...)})
	}
	now := t.Post.Time
	for _, a := range t.Post.Auctions {
		if a.Type == ref.TypeBatch && uint32(len(a.EndTimes)) > a.MaxExt+1 {
			bad("too-many-end-times", "auction %d has %d end times with max extended rounds %d (after %v)", a.ID, len(a.EndTimes), a.MaxExt, t.Op)
		}
	}
	if isBlock(t.Op) {
		for _, a := range t.Pre.Auctions {
			if a.Type == ref.TypeBatch && a.Status == ref.StatusStarted && a.LastEnd().After(now) {
				// a block strictly before the current end time decides nothing
				pa := t.Post.Auction(a.ID)
				m.st.Inc("blocks_before_current_end_time")
				if len(a.EndTimes) > 1 {
					m.st.Inc("blocks_strictly_inside_an_extended_round")
				}
				if pa != nil && (pa.Status != ref.StatusStarted || !timesEq(pa.EndTimes, a.EndTimes)) {
					bad("decision-before-end-time", "auction %d (end times %v) is decided by a block at %v, before its current end time: status %s, end times %v", a.ID, a.EndTimes, now, ref.StatusName(pa.Status), pa.EndTimes)
				}
				if t.Pre.MatchedLen[a.ID] != t.Post.MatchedLen[a.ID] {
					bad("matched-count-changed-before-end-time", "auction %d: the recorded matched count changed in a block before its current end time", a.ID)
				}
			}
			if a.Type != ref.TypeBatch || a.Status != ref.StatusStarted || a.LastEnd().After(now) {
				continue
			}
			pa := t.Post.Auction(a.ID)
			step := ref.StepOf(t.Pre, a, now)
			prev, hasPrev := t.Pre.MatchedLen[a.ID]
			cur := step.Clearing.MatchedLen
			roundsLeft := uint32(len(a.EndTimes)) < a.MaxExt+1
			cls := fmt.Sprintf("rounds-left=%v/prev=%d/cur=%d/%s", roundsLeft, prev, cur, step.Kind)
			m.st.Inc("end_time_decisions")
			m.st.Inc("decision/" + step.Kind.String())
			m.st.Case("decision", cls+"|rate="+a.Rate.FloatString(4))
			_ = hasPrev
			extended := len(pa.EndTimes) == len(a.EndTimes)+1 && pa.Status == ref.StatusStarted
			settled := pa.Status == ref.StatusVesting || pa.Status == ref.StatusFinished
			switch step.Kind {
			case ref.StepExtend:
				if !extended {
					bad("not-extended/"+boolStr(prev == 0, "no-previous-count", "count-fell-by-rate"), "auction %d at its end time %v with rounds left, previous matched count %d, current %d, rate %s: expected an extension, got status %s end times %v",
						a.ID, a.LastEnd(), prev, cur, a.Rate.FloatString(4), ref.StatusName(pa.Status), pa.EndTimes)
				} else if !pa.LastEnd().Equal(step.NewEnd) {
					bad("extension-period", "auction %d extended to %v, expected %v (period %d days after %v)", a.ID, pa.LastEnd(), step.NewEnd, t.Pre.ExtPeriod, a.LastEnd())
				}
			case ref.StepSettle:
				if !settled {
					bad("not-settled/"+boolStr(roundsLeft, "count-did-not-fall-by-rate", "no-rounds-left"), "auction %d at its end time %v (rounds left %v, previous count %d, current %d, rate %s): expected settlement, got status %s end times %v",
						a.ID, a.LastEnd(), roundsLeft, prev, cur, a.Rate.FloatString(4), ref.StatusName(pa.Status), pa.EndTimes)
				}
			}
			// the count recorded now is the true count of this book (the next decision's input)
			if got, ok := t.Post.MatchedLen[a.ID]; !ok || got != cur {
				bad("recorded-matched-count", "auction %d at end time %v: %d matched bids recorded (present=%v), the book %v has %d", a.ID, a.LastEnd(), got, ok, bookString(t.Pre, a), cur)
			}
			m.st.Sample(map[string]any{"history": opsStr(t.History()), "decision": cls})
		}
	} else {
		// outside blocks, end times and the recorded count never change
		for _, a := range t.Pre.Auctions {
			pa := t.Post.Auction(a.ID)
			if pa != nil && !timesEq(a.EndTimes, pa.EndTimes) {
				bad("end-times-changed-by-message", "auction %d end times changed after %v", a.ID, t.Op)
			}
			if t.Pre.MatchedLen[a.ID] != t.Post.MatchedLen[a.ID] {
				bad("matched-count-changed-by-message", "auction %d recorded matched count changed after %v", a.ID, t.Op)
			}
		}
	}
	// bounded liveness: from every state with an open batch auction, one block at each successive
	// last end time settles it within the rounds that are left
	if t.Res.OK() || isBlock(t.Op) {
		for _, a := range t.Post.Auctions {
			if a.Type != ref.TypeBatch || a.Status != ref.StatusStarted {
				continue
			}
			key := t.Post.RawModule + fmt.Sprint(a.ID)
			if m.seen[key] {
				continue
			}
			m.seen[key] = true
			limit := int(a.MaxExt) + 1 - len(a.EndTimes) + 1
			ctx, _ := t.PostCtx.CacheContext()
			cur := a
			done := false
			steps := 0
			for i := 0; i < limit+1; i++ {
				at := cur.LastEnd()
				if at.Before(t.Post.Time) {
					at = t.Post.Time
				}
				h := ctx.BlockHeader()
				h.Height++
				h.Time = at
				ctx = ctx.WithBlockHeader(h)
				if err := t.W.BeginBlock(ctx); err != nil {
					bad("liveness-block-error", "continuation block at %v fails: %v", at, err)
					break
				}
				steps++
				st, err := t.W.Snapshot(ctx)
				if err != nil {
					break
				}
				cur = st.Auction(a.ID)
				if cur.Status == ref.StatusVesting || cur.Status == ref.StatusFinished {
					done = true
					break
				}
			}
			m.st.Inc("liveness_continuations")
			m.st.Case("liveness", key)
			if !done {
				bad("never-settles", "auction %d (max rounds %d, %d end times) is still open after %d blocks placed at its successive end times", a.ID, a.MaxExt, len(a.EndTimes), steps)
			} else if steps > limit {
				bad("settles-late", "auction %d needed %d end-time blocks, bound %d", a.ID, steps, limit)
			}
		}
	}
	return vs
}

func boolStr(b bool, t, f string) string {
	if b {
		return t
	}
	return f
}
