// Package mc is the explorer: operations, search, monitors, scenarios.
package mc

import (
	"fmt"
	"runtime/debug"
	"strings"
	"time"

	"cosmossdk.io/math"
	abci "github.com/cometbft/cometbft/abci/types"
	sdk "github.com/cosmos/cosmos-sdk/types"
	authtypes "github.com/cosmos/cosmos-sdk/x/auth/types"
	govtypes "github.com/cosmos/cosmos-sdk/x/gov/types"

	fmodule "github.com/tendermint/fundraising/x/fundraising/module"
	ftypes "github.com/tendermint/fundraising/x/fundraising/types"

	"verif/mc/world"
)

// Sched is one vesting instalment of a creation op: release at instant K with weight W.
type Sched struct {
	K int    `json:"k"`
	W string `json:"w"`
}

// Op is one element of the alphabet. It is a flat, JSON-serialisable record so that a history is a
// replayable artefact.
type Op struct {
	Kind   string `json:"kind"`
	Signer string `json:"signer,omitempty"` // actor name (or a raw string for malformed-address inputs)

	AID   uint64 `json:"aid,omitempty"`
	BidID uint64 `json:"bid_id,omitempty"`
	// bids
	BidType int    `json:"bid_type,omitempty"`
	Price   string `json:"price,omitempty"`
	Denom   string `json:"denom,omitempty"`
	Amt     string `json:"amt,omitempty"`
	// creation
	Sell       string  `json:"sell,omitempty"` // e.g. "10acoin"
	PayDenom   string  `json:"pay_denom,omitempty"`
	StartPrice string  `json:"start_price,omitempty"`
	MinPrice   string  `json:"min_price,omitempty"`
	StartK     int     `json:"start_k,omitempty"`
	ZeroStart  bool    `json:"zero_start,omitempty"` // start_time left out of the message (the zero time)
	EndK       int     `json:"end_k,omitempty"`
	Sched      []Sched `json:"sched,omitempty"`
	MaxExt     uint32  `json:"max_ext,omitempty"`
	Rate       string  `json:"rate,omitempty"`
	// allow-list
	Bidder string `json:"bidder,omitempty"` // actor name
	Max    string `json:"max,omitempty"`
	// More: further entries of the same AddAllowedBidders call, "bidder:max,bidder:max" (the call takes a list).
	// KeepOnError: the calling module handles a failure of the call itself and keeps what was written
	// so far (no transaction boundary around the call). Only the C14 histories use these two.
	// Reversed: see the reimport op
	Reversed    bool   `json:"reversed,omitempty"`
	More        string `json:"more,omitempty"`
	KeepOnError bool   `json:"keep_on_error,omitempty"`
	// EntryAIDOther: the AllowedBidder entry handed to the keeper API carries another auction's id (AID xor 1)
	// in its own auction_id field, which the API's auctionId argument is documented to override
	EntryAIDOther bool `json:"entry_aid_other,omitempty"`
	// block / tick
	K int `json:"k,omitempty"`
	// donate
	To   string `json:"to,omitempty"` // sell|pay|vest
	Coin string `json:"coin,omitempty"`
	// params
	CreationFee string `json:"creation_fee,omitempty"`
	BidFee      string `json:"bid_fee,omitempty"`
	ExtPeriod   uint32 `json:"ext_period,omitempty"`
	Authority   string `json:"authority,omitempty"`

	// Budget names the scarce budget this op consumes when it is accepted.
	Budget string `json:"budget,omitempty"`
	// Tag is a free label used by menus (e.g. the rejection reason an op represents).
	Tag string `json:"tag,omitempty"`
}

func (o Op) String() string {
	switch o.Kind {
	case "block":
		return fmt.Sprintf("block(%d)", o.K)
	case "tick":
		return "tick"
	case "place":
		return fmt.Sprintf("place(%s a%d t%d p=%s %s%s)", o.Signer, o.AID, o.BidType, o.Price, o.Amt, o.Denom)
	case "modify":
		return fmt.Sprintf("modify(%s a%d #%d p=%s %s%s)", o.Signer, o.AID, o.BidID, o.Price, o.Amt, o.Denom)
	case "cancel":
		return fmt.Sprintf("cancel(%s a%d)", o.Signer, o.AID)
	case "add_allowed", "msg_add_allowed":
		if o.EntryAIDOther {
			return fmt.Sprintf("%s(a%d %s max=%s entry.auction_id=%d)", o.Kind, o.AID, o.Bidder, o.Max, o.AID^1)
		}
		if o.More != "" {
			return fmt.Sprintf("%s(a%d %s:%s,%s keep_on_error=%v)", o.Kind, o.AID, o.Bidder, o.Max, o.More, o.KeepOnError)
		}
		return fmt.Sprintf("%s(a%d %s max=%s)", o.Kind, o.AID, o.Bidder, o.Max)
	case "update_allowed":
		return fmt.Sprintf("update_allowed(a%d %s max=%s)", o.AID, o.Bidder, o.Max)
	case "create_fixed":
		return fmt.Sprintf("create_fixed(%s p=%s %s/%s start=%d end=%d sched=%v)", o.Signer, o.StartPrice, o.Sell, o.PayDenom, o.StartK, o.EndK, o.Sched)
	case "create_batch":
		return fmt.Sprintf("create_batch(%s p=%s min=%s %s/%s start=%d end=%d sched=%v ext=%d rate=%s)", o.Signer, o.StartPrice, o.MinPrice, o.Sell, o.PayDenom, o.StartK, o.EndK, o.Sched, o.MaxExt, o.Rate)
	case "donate":
		return fmt.Sprintf("donate(%s -> %s#%d %s)", o.Signer, o.To, o.AID, o.Coin)
	case "reimport":
		if o.Reversed {
			return "export+import(lists of the file reversed)"
		}
		return "export+import"
	case "update_params":
		return fmt.Sprintf("update_params(%s cf=%s bf=%s ep=%d)", o.Authority, o.CreationFee, o.BidFee, o.ExtPeriod)
	}
	return o.Kind
}

// Result is what an op did.
type Result struct {
	Err    error
	ErrStr string
	Panic  string
	Events []abci.Event
	// Vetoed is set by ops that never reach the handler because ValidateBasic refused them.
	Stage string // "validate_basic" | "handler" | "block" | "api"
}

func (r *Result) OK() bool { return r.Err == nil && r.Panic == "" }

// addrOf is the canonical (lower-case) address string of an actor name: what the state and the
// reference model know an account by. "<actor>^" names the same account (see msgAddr).
func addrOf(name string) string {
	if a, ok := world.Actors[strings.TrimSuffix(name, "^")]; ok {
		return a.Bech32
	}
	return name // raw (possibly malformed) address string
}

// msgAddr is the string put into a message for an actor name: "<actor>^" is the same account written
// in the all-upper-case form that bech32 also allows.
func msgAddr(name string) string {
	if strings.HasSuffix(name, "^") {
		if a, ok := world.Actors[strings.TrimSuffix(name, "^")]; ok {
			return strings.ToUpper(a.Bech32)
		}
	}
	return addrOf(name)
}

func mustDec(s string) math.LegacyDec {
	if s == "" {
		return math.LegacyDec{}
	}
	return math.LegacyMustNewDecFromStr(s)
}

func mustInt(s string) math.Int {
	i, ok := math.NewIntFromString(s)
	if !ok {
		panic("bad int " + s)
	}
	return i
}

// rawCoin builds a coin without validation so that invalid inputs can be expressed.
func rawCoin(denom, amt string) sdk.Coin {
	return sdk.Coin{Denom: denom, Amount: mustInt(amt)}
}

func parseCoinLoose(s string) sdk.Coin {
	// "<int><denom>" with optional leading '-'
	i := 0
	if i < len(s) && s[i] == '-' {
		i++
	}
	for i < len(s) && s[i] >= '0' && s[i] <= '9' {
		i++
	}
	return rawCoin(s[i:], s[:i])
}

func parseCoinsLoose(s string) sdk.Coins {
	if s == "" {
		return sdk.Coins{}
	}
	var out sdk.Coins
	for _, p := range strings.Split(s, ",") {
		out = append(out, parseCoinLoose(p))
	}
	return out
}

func (o Op) startTime() time.Time {
	if o.ZeroStart {
		return time.Time{}
	}
	return world.Instant(o.StartK)
}

func (o Op) schedules() []ftypes.VestingSchedule {
	var vs []ftypes.VestingSchedule
	for _, s := range o.Sched {
		vs = append(vs, ftypes.VestingSchedule{ReleaseTime: world.Instant(s.K), Weight: mustDec(s.W)})
	}
	return vs
}

// Msg builds the sdk.Msg of a transaction op (nil for non-transaction ops).
func (o Op) Msg(w *world.World) sdk.Msg {
	switch o.Kind {
	case "create_fixed":
		return &ftypes.MsgCreateFixedPriceAuction{
			Auctioneer: msgAddr(o.Signer), StartPrice: mustDec(o.StartPrice), SellingCoin: parseCoinLoose(o.Sell),
			PayingCoinDenom: o.PayDenom, VestingSchedules: o.schedules(),
			StartTime: o.startTime(), EndTime: world.Instant(o.EndK),
		}
	case "create_batch":
		return &ftypes.MsgCreateBatchAuction{
			Auctioneer: msgAddr(o.Signer), StartPrice: mustDec(o.StartPrice), MinBidPrice: mustDec(o.MinPrice),
			SellingCoin: parseCoinLoose(o.Sell), PayingCoinDenom: o.PayDenom, VestingSchedules: o.schedules(),
			MaxExtendedRound: o.MaxExt, ExtendedRoundRate: mustDec(o.Rate),
			StartTime: o.startTime(), EndTime: world.Instant(o.EndK),
		}
	case "cancel":
		return &ftypes.MsgCancelAuction{Auctioneer: msgAddr(o.Signer), AuctionId: o.AID}
	case "place":
		return &ftypes.MsgPlaceBid{AuctionId: o.AID, Bidder: msgAddr(o.Signer), BidType: ftypes.BidType(o.BidType),
			Price: mustDec(o.Price), Coin: rawCoin(o.Denom, o.Amt)}
	case "modify":
		return &ftypes.MsgModifyBid{AuctionId: o.AID, Bidder: msgAddr(o.Signer), BidId: o.BidID,
			Price: mustDec(o.Price), Coin: rawCoin(o.Denom, o.Amt)}
	case "msg_add_allowed":
		return &ftypes.MsgAddAllowedBidder{AuctionId: o.AID, AllowedBidder: ftypes.AllowedBidder{
			AuctionId: o.AID, Bidder: msgAddr(o.Bidder), MaxBidAmount: mustInt(o.Max)}}
	case "update_params":
		auth := o.Authority
		if auth == "gov" {
			auth = GovAddr()
		} else {
			auth = msgAddr(auth)
		}
		return &ftypes.MsgUpdateParams{Authority: auth, Params: ftypes.Params{
			AuctionCreationFee: parseCoinsLoose(o.CreationFee), PlaceBidFee: parseCoinsLoose(o.BidFee), ExtendedPeriod: o.ExtPeriod}}
	}
	return nil
}

// GovAddr is the governance module account: the documented (and only) signer of MsgUpdateParams. It is
// derived here, not read from the keeper, so that an application wired with another authority is seen.
func GovAddr() string { return authtypes.NewModuleAddress(govtypes.ModuleName).String() }

type hasValidateBasic interface{ ValidateBasic() error }

// RunTx is the transaction-boundary emulation: ValidateBasic (if the message has one) -> router
// handler on a cache -> write iff err == nil. A panic in the handler is recovered where
// baseapp.runTx recovers it (the transaction fails, nothing is written).
func RunTx(w *world.World, ctx sdk.Context, msg sdk.Msg) (res Result) {
	if vb, ok := msg.(hasValidateBasic); ok {
		func() {
			defer func() {
				if r := recover(); r != nil {
					res.Panic = fmt.Sprint(r)
					res.Err = fmt.Errorf("panic in ValidateBasic: %v", r)
				}
			}()
			if err := vb.ValidateBasic(); err != nil {
				res.Err = err
			}
		}()
		if res.Err != nil {
			res.Stage = "validate_basic"
			res.ErrStr = res.Err.Error()
			res.Panic = "" // a panic inside ValidateBasic is a rejection at the tx boundary
			return res
		}
	}
	res.Stage = "handler"
	h := w.App.MsgServiceRouter().Handler(msg)
	if h == nil {
		res.Err = fmt.Errorf("no handler for %T", msg)
		res.ErrStr = res.Err.Error()
		return res
	}
	cctx, write := ctx.CacheContext()
	cctx = cctx.WithEventManager(sdk.NewEventManager())
	func() {
		defer func() {
			if r := recover(); r != nil {
				res.Err = fmt.Errorf("panic in handler: %v", r)
				res.Panic = fmt.Sprintf("%v\n%s", r, debug.Stack())
			}
		}()
		r, err := h(cctx, msg)
		if err != nil {
			res.Err = err
			return
		}
		if r != nil {
			res.Events = r.Events
		}
		for _, e := range cctx.EventManager().ABCIEvents() {
			res.Events = append(res.Events, e)
		}
	}()
	if res.Err != nil {
		res.ErrStr = res.Err.Error()
		// a panicking transaction is rejected by runTx's recovery; nothing is written
		res.Panic = ""
		return res
	}
	write()
	return res
}

// Apply executes op on ctx (a branch owned by the caller) and returns the context that holds the
// result (for block ops the header changes, so a derived context is returned).
func (o Op) Apply(w *world.World, ctx sdk.Context) (sdk.Context, Result) {
	switch o.Kind {
	case "block", "tick":
		var t time.Time
		if o.Kind == "block" {
			t = world.Instant(o.K)
		} else {
			t = ctx.BlockTime().Add(time.Hour)
		}
		h := ctx.BlockHeader()
		h.Height++
		h.Time = t
		nctx := ctx.WithBlockHeader(h).WithEventManager(sdk.NewEventManager())
		res := Result{Stage: "block"}
		func() {
			defer func() {
				if r := recover(); r != nil {
					res.Panic = fmt.Sprintf("%v\n%s", r, debug.Stack())
					res.Err = fmt.Errorf("panic in block hook: %v", r)
				}
			}()
			res.Err = w.BeginBlock(nctx)
		}()
		if res.Err != nil {
			res.ErrStr = res.Err.Error()
		}
		res.Events = nctx.EventManager().ABCIEvents()
		return nctx, res
	case "add_allowed", "update_allowed":
		cctx, write := ctx.CacheContext()
		cctx = cctx.WithEventManager(sdk.NewEventManager())
		res := Result{Stage: "api"}
		func() {
			defer func() {
				if r := recover(); r != nil {
					res.Panic = fmt.Sprintf("%v\n%s", r, debug.Stack())
					res.Err = fmt.Errorf("panic in keeper API: %v", r)
				}
			}()
			if o.Kind == "add_allowed" {
				eid := o.AID
				if o.EntryAIDOther {
					eid = o.AID ^ 1
				}
				entries := []ftypes.AllowedBidder{{AuctionId: eid, Bidder: msgAddr(o.Bidder), MaxBidAmount: mustInt(o.Max)}}
				if o.More != "" {
					for _, e := range strings.Split(o.More, ",") {
						bm := strings.SplitN(e, ":", 2)
						entries = append(entries, ftypes.AllowedBidder{AuctionId: eid, Bidder: msgAddr(bm[0]), MaxBidAmount: mustInt(bm[1])})
					}
				}
				res.Err = w.K.AddAllowedBidders(cctx, o.AID, entries)
			} else {
				res.Err = w.K.UpdateAllowedBidder(cctx, o.AID, world.A(o.Bidder).Addr, mustInt(o.Max))
			}
		}()
		if res.Err != nil {
			res.ErrStr = res.Err.Error()
			if o.KeepOnError && res.Panic == "" {
				write()
			}
			return ctx, res
		}
		write()
		return ctx, res
	case "reimport":
		// the chain is restarted from its own exported state: ExportGenesis -> JSON -> InitGenesis into
		// the wiped module store (bank balances stay as they are). Reversed lists the bids, allow-list
		// entries and instalments of the file in the opposite order (a hand-merged but valid file).
		cctx, write := ctx.CacheContext()
		res := Result{Stage: "api"}
		func() {
			defer func() {
				if r := recover(); r != nil {
					res.Err = fmt.Errorf("panic during re-import: %v", r)
				}
			}()
			gs, err := fmodule.ExportGenesis(cctx, w.K)
			if err != nil {
				res.Err = err
				return
			}
			cdc := w.App.AppCodec()
			bz, err := cdc.MarshalJSON(gs)
			if err != nil {
				res.Err = err
				return
			}
			var gs2 ftypes.GenesisState
			if err := cdc.UnmarshalJSON(bz, &gs2); err != nil {
				res.Err = err
				return
			}
			if o.Reversed {
				for i, j := 0, len(gs2.BidList)-1; i < j; i, j = i+1, j-1 {
					gs2.BidList[i], gs2.BidList[j] = gs2.BidList[j], gs2.BidList[i]
				}
				for i, j := 0, len(gs2.AllowedBidderList)-1; i < j; i, j = i+1, j-1 {
					gs2.AllowedBidderList[i], gs2.AllowedBidderList[j] = gs2.AllowedBidderList[j], gs2.AllowedBidderList[i]
				}
				for i, j := 0, len(gs2.VestingQueueList)-1; i < j; i, j = i+1, j-1 {
					gs2.VestingQueueList[i], gs2.VestingQueueList[j] = gs2.VestingQueueList[j], gs2.VestingQueueList[i]
				}
			}
			if err := gs2.Validate(); err != nil {
				res.Err = err
				return
			}
			wipeModuleStore(w, cctx)
			res.Err = fmodule.InitGenesis(cctx, w.K, gs2)
		}()
		if res.Err != nil {
			res.ErrStr = res.Err.Error()
			return ctx, res
		}
		write()
		return ctx, res
	case "donate":
		var to sdk.AccAddress
		switch o.To {
		case "sell":
			to = ftypes.SellingReserveAddress(o.AID)
		case "pay":
			to = ftypes.PayingReserveAddress(o.AID)
		case "vest":
			to = ftypes.VestingReserveAddress(o.AID)
		default:
			panic("bad donate target")
		}
		cctx, write := ctx.CacheContext()
		res := Result{Stage: "api"}
		res.Err = w.App.BankKeeper.SendCoins(cctx, world.A(o.Signer).Addr, to, sdk.NewCoins(parseCoinLoose(o.Coin)))
		if res.Err != nil {
			res.ErrStr = res.Err.Error()
			return ctx, res
		}
		write()
		return ctx, res
	default:
		msg := o.Msg(w)
		if msg == nil {
			panic("unknown op kind " + o.Kind)
		}
		res := RunTx(w, ctx, msg)
		return ctx, res
	}
}
