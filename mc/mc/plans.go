package mc

import (
	"fmt"
	"os"
	"strings"
)

const trustNote = "Cosmos SDK bank/distribution/store, cosmossdk.io/math and collections are trusted"

// PlanFor returns the plan deciding prop in tier.
func PlanFor(prop, tier string) (*Plan, error) {
	quick := tier != "thorough"
	capS := 600
	if quick {
		capS = 160
	}
	p := &Plan{Prop: prop, Tier: tier, Level: "model_checking", TimeCapS: capS, PrefixDepth: 2,
		Assume: []string{trustNote, "values outside the stated alphabets and budgets are not covered"}}
	switch prop {
	case "C01":
		p.Scenarios = append(moneyScenarios(tier), S1d(tier), S2d(tier), S10(tier, false), S10(tier, true), S1a(tier, true).withBudget(Budget{"bid": 2, "allow": 1, "update": 0, "mod": 1, "block": 3, "tick": 0, "cancel": 1}, "-lite").withFeeChanges(), S2a(tier, true).withBudget(Budget{"bid": 2, "allow": 1, "update": 0, "mod": 1, "block": 2, "tick": 0, "cancel": 0}, "-lite").withFeeChanges())
		p.Monitors = func() []Monitor { return []Monitor{NewC01()} }
		p.Rule = "explicit-state DFS over real keeper code (CacheContext branching), dedup on sha256(raw module store ‖ tracked balances ‖ block time ‖ budgets); every transition checks escrow balance minus record-derived expectation for all three escrows of every auction; non-trivial = distinct post-states in which some escrow expectation is non-zero"
	case "C02":
		p.Scenarios = append(moneyScenarios(tier), S1d(tier), S2d(tier), S10(tier, false), S10(tier, true), S1a(tier, true).withBudget(Budget{"bid": 2, "allow": 1, "update": 0, "mod": 1, "block": 3, "tick": 0, "cancel": 1}, "-lite").withFeeChanges(), S2a(tier, true).withBudget(Budget{"bid": 2, "allow": 1, "update": 0, "mod": 1, "block": 2, "tick": 0, "cancel": 0}, "-lite").withFeeChanges())
		p.Monitors = func() []Monitor { return []Monitor{NewC02()} }
		p.Rule = "same exploration; every transition checks zero-sum, supply, deltas == emitted bank transfers, and the op's exact due (fee + reservation, settlement allocations/refunds/unsold/proceeds, instalments); non-trivial = distinct bids / modifications / settlements with a winner / instalment releases"
	case "C03":
		p.Scenarios = append(bookScenarios(tier), S2b(tier, 2, false), S4w("quick"), S2o(tier), S2m(tier), S11(tier), S13(tier, true))
		p.Monitors = func() []Monitor { return []Monitor{NewC03()} }
		p.Rule = "order-book enumeration: every book of <=N real PlaceBid calls (bidder x kind x price x amount, incl. a price level that turns small worth-bids into zero coins) under several cap/supply assignments, plus every book the modification scenario reaches; for each distinct book the MatchingInfo of the real CalculateBatchAllocation and, at the settlement block, the delivered coins are compared with the definition (linear scan over all recorded prices, exact rationals); non-trivial = distinct order books (digest of bids, caps, supply)"
	case "C04":
		p.Scenarios = append(bookScenarios(tier), S1b(tier, "3", true), S1b(tier, "0.5", false), S2b(tier, 2, false), S2o(tier), S2m(tier), S11(tier), S13(tier, false), S13(tier, true), S1b(tier, "3", false).tagged("ledger").withBudget(Budget{"update": 0, "bid": 3, "block": 2, "tick": 0}, "-lite").withReimport(false))
		if !quick {
			p.Scenarios = append(p.Scenarios, S1b(tier, "0.333333333333333333", true), S2b(tier, 0, true), S2a(tier, true))
		}
		p.Monitors = func() []Monitor { return []Monitor{NewC04()} }
		p.Rule = "same enumeration; at every settlement each bidder's payment (reservation minus refund read off the bank transfers) is bounded by P*q <= paid < P*q + #matched bids and by the reservation, losers get everything back, P* never exceeds a matched bid's limit; every accepted fixed-price bid is checked against its rounding bound; non-trivial = distinct (P*, quantity, paid, matched bids, reserved) winner cases and distinct fixed bids"
	case "C05":
		p.Scenarios = append(bookScenarios(tier), S1b(tier, "3", true), S1b(tier, "0.5", false), S2b(tier, 0, true), S3(tier, false), S3x(tier), S3e(tier), S2o(tier), S2m(tier), S11(tier), S12(tier), S13(tier, false), S13(tier, true), S1b(tier, "3", true).withBudget(Budget{"update": 0, "bid": 3, "block": 2, "tick": 0}, "-lite").withReimport(false))
		if !quick {
			p.Scenarios = append(p.Scenarios, S1a(tier, true), S2a(tier, false), S2b(tier, 2, false))
		}
		p.Monitors = func() []Monitor { return []Monitor{NewC05()} }
		p.Rule = "same enumeration; every accepted fixed-price bid is checked against the cap and remainder of the pre-state, every settlement against cap (as of settlement), request at the clearing price and offered amount; non-trivial = distinct (received, cap, price) cases"
	case "C06":
		p.Scenarios = []*Scenario{S1b(tier, "3", true), S1b(tier, "0.5", false), S1a(tier, true), S1p(tier), S3x(tier), S3e(tier), S1b(tier, "3", true).withBudget(Budget{"update": 0, "bid": 3, "block": 2, "tick": 0}, "-lite").withReimport(true)}
		if !quick {
			p.Scenarios = append(p.Scenarios, S1b(tier, "0.333333333333333333", true), S1b(tier, "1", false), S1a(tier, false))
		}
		p.Monitors = func() []Monitor { return []Monitor{NewC06()} }
		p.Rule = "every sequence of fixed-price bids (both denominations, allow-listed and outsider accounts, amounts that exactly exhaust / exceed the remainder or convert to zero) within the budget; each decision is compared in both directions with the reference predicate and the published remainder with offered minus accepted in every state; non-trivial = distinct (reason, bidder, denom, amount, price, remainder) decisions"
	case "C08":
		p.Scenarios = []*Scenario{S1a(tier, true), S2a(tier, false), S3(tier, false), S2c(tier, "0.5", 0), S12(tier)}
		for _, sc := range p.Scenarios {
			sc.withRejectsTerminal()
		}
		p.Scenarios = append(p.Scenarios, S14(tier)) // no rejection representatives here: 104 auctions x every status would dominate the cost
		p.Monitors = func() []Monitor { return []Monitor{NewC08(), NewC12()} }
		p.Rule = "lifecycle scenarios with blocks before / exactly at / after every start, end, extended end and release instant (jumps and +1h ticks), bids / modifications / cancels attempted in every status; every auction's status and end times after every transition are compared with the reference step function; non-trivial = distinct (pre-state, step) pairs in which a lifecycle step happened"
	case "C12":
		p.Scenarios = []*Scenario{S1a(tier, true), S2a(tier, false), S3(tier, false), S1d(tier)}
		for _, sc := range p.Scenarios {
			sc.withRejectsTerminal()
		}
		p.Monitors = func() []Monitor { return []Monitor{NewC12()} }
		p.Rule = "cancel attempted by the auctioneer, another auctioneer and a bidder on every auction in every status at every instant relative to its start (including auctions created already open); decision compared with signer = auctioneer and status = waiting; effects checked on acceptance; non-trivial = distinct (signer class, status, position to start, state) decisions"
	case "C09":
		p.Scenarios = append(vestingScenarios(tier), S1a(tier, true), S5big(), S12(tier), S3e(tier))
		p.Monitors = func() []Monitor { return []Monitor{NewC09()} }
		p.Rule = "schedules x proceeds x block patterns: fixed-price auction at price 1 so that one or two paying-denominated bids produce any proceeds in the grid; every subset of release instants hit exactly / skipped / overshot; the split at settlement is compared with floor(proceeds x weight) / remainder-to-last in exact rationals and every block with the instalments due and unreleased at its start; non-trivial = distinct (proceeds, weights) splits and distinct (state, due set, time) releases"
	case "C11":
		p.Scenarios = []*Scenario{S2b(tier, 2, false).withModRejects(), S2b(tier, 0, true).withModRejects(), S1p(tier).withModRejects(), S2m(tier).withModRejects()}
		if !quick {
			p.Scenarios = append(p.Scenarios, S2a(tier, true).withModRejects(), S3(tier, false).withModRejects())
		}
		p.Monitors = func() []Monitor { return []Monitor{NewC11()} }
		p.Rule = "chains of modifications of every bid by owner, other bidder and outsider over the (price, amount) grid incl. lower / equal / higher in each coordinate, wrong denom, below the floor, unknown bid, in every auction status; decision compared in both directions with the reference predicate; on acceptance identity, monotonicity and charge = reservation increase; in every transition no bid disappears or shrinks; non-trivial = distinct decisions"
	case "C13":
		p.Scenarios = []*Scenario{S2b(tier, 1, true), S2c(tier, "0.25", 1), S2c(tier, "1", 2), S2c(tier, "0.5", 0), S2max()}
		if !quick {
			p.Scenarios = append(p.Scenarios, S2a(tier, false), S2b(tier, 2, false), S2b(tier, 1, true), S2c(tier, "0.5", 2), S2c(tier, "0.1", 1))
		}
		p.Monitors = func() []Monitor { return []Monitor{NewC13()} }
		p.Rule = "order-book evolutions between end times (new bids, modifications, cap changes) for max rounds 0/1/2, several rates and periods; at every end-time block the decision is compared with the exact-rational rule, the appended end time with last + period, the recorded matched count with the reference count of the book; from every distinct state with an open batch auction a bounded continuation (one block per successive end time) must settle within the rounds left; non-trivial = distinct (rounds left, previous count, current count, decision, rate) cases"
	case "C18":
		lite := Budget{"bid": 1, "allow": 1, "update": 0, "mod": 1, "block": 2, "tick": 0, "cancel": 1}
		p.Scenarios = []*Scenario{
			S1a(tier, true).withBudget(lite, "-lite").withProbes(false),
			S2a(tier, false).withBudget(lite, "-lite").withProbes(false),
			S3(tier, true).withBudget(Budget{"bid": 1, "mod": 1, "block": 2, "update": 0, "create": 1}, "-lite").withProbes(false),
			S1p(tier),
			S3x(tier).withBudget(Budget{"bid": 2, "block": 1, "allow": 0, "update": 0}, "-lite").withProbes(false),
			S2b(tier, 0, false).withBudget(Budget{"bid": 2, "mod": 2, "block": 1, "update": 0}, "-lite").withProbes(false),
			S1d(tier).withBudget(Budget{"bid": 1, "block": 2, "donate": 1}, "-lite"), // coins sent straight to an escrow never change what is accepted
		}
		if !quick {
			mid := Budget{"bid": 2, "allow": 2, "update": 1, "mod": 1, "block": 3, "tick": 1, "cancel": 1}
			p.Scenarios = []*Scenario{
				S1a(tier, true).withBudget(mid, "-mid").withProbes(false),
				S2a(tier, false).withBudget(mid, "-mid").withProbes(false),
				S3(tier, true).withBudget(Budget{"bid": 2, "mod": 1, "block": 3}, "-mid").withProbes(false),
				S1a(tier, false).withBudget(lite, "-lite").withProbes(true),
				S2a(tier, true).withBudget(lite, "-lite").withProbes(true),
				S1p(tier).withProbes(false),
			}
		}
		p.Monitors = func() []Monitor { return []Monitor{NewC18()} }
		p.Rule = "in every state of the lifecycle and multi-auction scenarios below the stated budgets, every message type is delivered with a field alphabet that replaces one field at a time (thorough: every pair of fields) by invalid and boundary values (bad address, zero/negative price, zero/negative amount, invalid/equal/third denom, end<=start, end<now, 100/101 instalments, weights != 1, unordered or too-early releases, rounds 30/31, rate 0, unknown auction/bid id, wrong kind, wrong signer/authority, insufficient funds); each decision is compared in both directions with the reference, and every rejection with an unchanged store dump, balances and community pool; non-trivial = distinct (message kind, reference reason, probe, field values) decisions"
	case "C19":
		p.Scenarios = []*Scenario{S3(tier, false).withRejectsTerminal(), S3x(tier).withEntryIDMismatch(), S3e(tier), S12(tier)}
		if !quick {
			p.Scenarios = append(p.Scenarios, S3(tier, true).withRejectsTerminal())
		}
		p.Monitors = func() func() []Monitor {
			f := NewC19Factory()
			return func() []Monitor { return []Monitor{f()} }
		}()
		p.Post = c19FailedCreations
		p.Rule = "histories over 2-3 concurrent auctions sharing auctioneer, bidders and (crossed) denominations, failed operations included: around every transition the raw records, bids, allow-list, instalments, counters and three escrow balances of every auction that is neither the target nor due for a lifecycle step must be byte-identical; agreed terms of every auction are compared before/after every transition; ids follow the counters; a table shared by the whole run maps (projection of X, actor balances, params, time, op) to the outcome and flags two different outcomes under one key; plus every direct keeper creation failing at a listener veto / bank transfer with its writes kept or rolled back, followed by another creation (ids, record identity, new escrow); non-trivial = distinct frame cases and distinct table keys seen with different contents of the other auctions"
	case "C16":
		p.Scenarios = []*Scenario{S2b(tier, 2, false).tagged("noqueries"), S1b(tier, "3", true), S3(tier, false), S5(tier, []string{"0.5", "0.5"}, "n2-halves"), S2c(tier, "0.25", 1).tagged("noqueries"), S2b(tier, 0, true), S11(tier), S12(tier)}
		if !quick {
			p.Scenarios = append(p.Scenarios, S2b(tier, 1, true), S2a(tier, false), S3x(tier), S2b(tier, 2, true))
		}
		p.Monitors = func() []Monitor { return []Monitor{NewC16(true)} }
		p.Rule = "batch auctions through extended rounds (provisional winners outbid later), fixed-price bids converting to zero coins, vesting, and a multi-auction scenario: at every settlement each bid's is_matched flag is compared with its contribution to what its bidder received and the published matched price with the clearing price; released flags with payments; in every distinct module state the whole query alphabet (by-id for every existing and a missing key; ListAuction x status x type; ListBid x auction x bidder x is_matched; ListAllowedBidder / ListVestingQueue x auction; each unlimited + count, offset, and page size 1 with key continuation) is compared with a reference filter over the raw store dump; non-trivial = distinct settlements and distinct queried states"
	case "C15":
		lite := Budget{"bid": 2, "allow": 1, "update": 0, "mod": 1, "block": 3, "tick": 0, "cancel": 1}
		p.Scenarios = []*Scenario{
			S3(tier, false).withBudget(Budget{"bid": 2, "mod": 1, "block": 3, "update": 0, "create": 0, "cancel": 0}, "-lite"),
			S2e(tier).withBudget(Budget{"bid": 2, "mod": 0, "block": 4, "update": 0}, "-lite"),
			S1a(tier, true).withBudget(lite, "-lite").withEntryIDMismatch(),
			S3e(tier).withBudget(Budget{"bid": 3, "block": 3}, "-lite"),
			S2c(tier, "0.5", 0).withBudget(Budget{"bid": 2, "mod": 0, "update": 0, "block": 2, "tick": 2}, "-lite"), // extension period 0 in the params
			S2b(tier, 2, false).withBudget(Budget{"bid": 2, "mod": 1, "update": 0, "block": 3}, "-lite"),            // a matched bid modified during an extension round, then exported
		}
		if !quick {
			p.Scenarios = []*Scenario{S3(tier, false), S2e(tier), S1a(tier, true), S2a(tier, false), S3x(tier), S3e(tier)}
		}
		deep := !quick
		p.Monitors = func() []Monitor { return []Monitor{NewC15(deep)} }
		p.Post = c15GenesisParams
		p.Rule = "at every distinct module state of the multi-auction, early-release batch and fixed lifecycle scenarios: ExportGenesis -> JSON -> Validate; wipe the module store on a branch and InitGenesis; compare auctions, bids, allow-lists, instalments, counters and params byte by byte; then run original and re-imported branch in lock-step over every single op of the scenario menu, every pair (thorough: triple) of later block instants and bid-then-block sequences, comparing decisions, the seven collections and balances after every step; non-trivial = distinct exported states holding at least one auction"
	case "C10":
		p.Scenarios = []*Scenario{S1a(tier, true).withMsgAddAllow(), S3(tier, false).withMsgAddAllow(), S1b(tier, "3", true).withMsgAddAllow(), S2b(tier, 0, true).withMsgAddAllow()}
		if !quick {
			p.Scenarios = append(p.Scenarios, S2a(tier, false).withMsgAddAllow(), S2b(tier, 2, false).withMsgAddAllow())
		}
		p.Monitors = func() []Monitor { return []Monitor{NewC10()} }
		p.Rule = "in every explored state MsgAddAllowedBidder{auction, bidder = signer, max} is delivered through the application's message router for every auction and every bidder incl. an outsider; it must be rejected and the allow-list must be byte-identical afterwards; no other message may change the allow-list; every accepted bid's signer is on the list in the pre-state and every stored bid's bidder is listed in every state; non-trivial = distinct (auction status, listed?, signer, state) deliveries. The process links the application like cmd/fundraisingd does (it imports app, nothing from testutil / simulation)."
		p.Post = c10Binary
	case "C17":
		p.Level = "fault_enumeration"
		p.Custom = RunHooks
		p.Rule = "exhaustive product: 21 (operation, pre-state) scenes covering every operation that fires a hook (both creations, cancel, the three bid kinds, modification, add / update allowed bidder, fixed and batch settlement through both batch branches) x 1..3 recording listeners x failing listener position (none, 0..n-1) x which of the hooks fired by the operation fails x registration through SetHooks(MultiFundraisingHooks) and through the module's InvokeSetHooks(map); oracle: exact call sequence (each listener once, none after the veto), arguments equal to the message / committed record / real transfers, announced record not yet in the store view the listener reads, veto => error wrapping the listener's and nothing committed at the transaction boundary (settlement: the block hook returns it); non-trivial = distinct (scene, listeners, failing position, failing hook, registration) cases, all of them executed"
		p.Assume = []string{trustNote, "wiring through depinject inside app.New is not exercised (app.New accepts no extra providers): listeners are installed on a second real keeper over the application's own store", "I4: fees, reservations and the cancel refund moved before the hook are rolled back at the transaction boundary, which is what is checked"}
	case "C14":
		p.Level = "exploration"
		p.Custom = RunOrder
		p.Rule = "every `range` over a map and every maps.Keys call in x/fundraising/{keeper,types,module} is found by type-checking the working tree and rewritten (build-time -overlay, /repo untouched) to take its key order from a scheduler; for each history of the catalogue the canonical schedule (ascending keys everywhere) is run, then every schedule with at most `deviation_bound` ranges off the canonical order, each deviating range trying every permutation (<=4 keys: all 24); every schedule must give byte-identical ordered events (bank coin_spent/coin_received/transfer + module events) per op, module store dump and balances; the canonical digest is also compared across worker processes; non-trivial = schedules of histories that have at least one choice point"
		p.Assume = []string{trustNote, "containers other than Go maps inside the SDK are out of scope", "no goroutines, rand or wall-clock reads in the module (checked by reading; time.Now only feeds telemetry)"}
	case "C20":
		p.Level = "exploration"
		p.Custom = RunBinary
		p.Rule = "the node binary is built from the working tree with default settings; (1) it must start (--help); (2) in-process, every command option of the module's AutoCLI configuration is resolved against the registered protobuf descriptors exactly as AutoCLI does (fields.ByName): RPC exists, every positional binding names a field of the request, Use placeholders match the bound fields in order, by-id queries bind every key part, every RPC of both services is reachable or a documented exemption; (3) the whole `query fundraising` / `tx fundraising` command tree of the binary is walked breadth first with --help on every node; (4) every custom-bound tx leaf is run with --generate-only --offline and one distinct sentinel per argument, and the generated JSON must carry each sentinel in the field the argument is documented for; thorough adds (5) a one-node loopback chain started from a genesis whose module part is exported by the explorer (auction + allow-list entry + bid + instalment), which must produce >=3 blocks and answer every query leaf with the exported objects; non-trivial = distinct (service, RPC, binding), tree nodes and (command, argument) pairs"
		p.Assume = []string{trustNote, "build tags beyond the defaults (ledger) are not covered", "UpdateParams (authority-gated) and AddAllowedBidder (disabled in default builds, C10) are documented exemptions from 'reachable through a command'"}
	case "C07":
		p.Scenarios = []*Scenario{S3(tier, false).withMalformedBids(), S3r(tier), S1a(tier, true), S2a(tier, false).withMalformedBids(), S1d(tier), S2d(tier), S10(tier, false), S10(tier, true), S10p()}
		if !quick {
			p.Scenarios = append([]*Scenario{S3(tier, false), S3(tier, true), S3r(tier), S10p(), S1d(tier), S2d(tier), S10(tier, false), S10(tier, true)}, moneyScenarios(tier)...)
		}
		p.Monitors = func() []Monitor { return []Monitor{NewC07(), NewC07b()} }
		p.Level = "model_checking"
		p.Rule = "every explored state x every later timeline instant: the module's registered block hook must return nil and not panic; non-trivial = distinct (pre-state, block time) pairs in which the block changed the module state, plus distinct status vectors"
	default:
		return nil, fmt.Errorf("no plan for property %q", prop)
	}
	// The thorough tier first completes the whole quick space (so that thorough always contains quick
	// and a capped thorough run still has an exhaustively covered core), then spends the rest of its
	// wall-clock budget on the wider alphabets and budgets.
	if !quick && p.Custom == nil {
		if q, err := PlanFor(prop, "quick"); err == nil {
			for _, sc := range q.Scenarios {
				sc.Name += "@quick-space"
			}
			p.Scenarios = append(q.Scenarios, p.Scenarios...)
			p.TimeCapS = 900
		}
	}
	// Development aid (never set by the registered commands): VERIF_ONLY="S11,S13" keeps only the
	// scenarios whose name starts with one of the prefixes, to dry-run new scenarios at a tier's budgets.
	if only := os.Getenv("VERIF_ONLY"); only != "" && p.Custom == nil {
		var keep []*Scenario
		for _, sc := range p.Scenarios {
			for _, pre := range strings.Split(only, ",") {
				if strings.HasPrefix(sc.Name, pre) {
					keep = append(keep, sc)
					break
				}
			}
		}
		p.Scenarios = keep
	}
	return p, nil
}

// moneyScenarios is the scenario set of the balance properties (C01, C02, C04, C05).
func moneyScenarios(tier string) []*Scenario {
	out := []*Scenario{S1a(tier, true), S1b(tier, "0.5", false), S1b(tier, "3", true), S2a(tier, false), S2b(tier, 0, true), S2b(tier, 2, false), S2o(tier), S2m(tier), S11(tier), S12(tier), S13(tier, false), S13(tier, true)}
	if tier == "thorough" {
		out = append(out, S1a(tier, false), S1b(tier, "0.333333333333333333", true), S2a(tier, true), S2b(tier, 1, true), S1f(tier))
	}
	return out
}

// c10Binary is filled by binary.go (outside view of the switch through the built node binary).
var c10Binary func(p *Plan, o ExecOpts, rs []*RunResult, ev *Evidence) ([]Violation, error)
