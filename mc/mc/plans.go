package mc

import "fmt"

const trustNote = "Cosmos SDK bank/distribution/store, cosmossdk.io/math and collections are trusted"

// PlanFor returns the plan deciding prop in tier.
func PlanFor(prop, tier string) (*Plan, error) {
	quick := tier != "thorough"
	capS := 600
	if quick {
		capS = 100
	}
	p := &Plan{Prop: prop, Tier: tier, Level: "model_checking", TimeCapS: capS, PrefixDepth: 2,
		Assume: []string{trustNote, "values outside the stated alphabets and budgets are not covered"}}
	switch prop {
	case "C01":
		p.Scenarios = moneyScenarios(tier)
		p.Monitors = func() []Monitor { return []Monitor{NewC01()} }
		p.Rule = "explicit-state DFS over real keeper code (CacheContext branching), dedup on sha256(raw module store ‖ tracked balances ‖ block time ‖ budgets); every transition checks escrow balance minus record-derived expectation for all three escrows of every auction; non-trivial = distinct post-states in which some escrow expectation is non-zero"
	case "C02":
		p.Scenarios = moneyScenarios(tier)
		p.Monitors = func() []Monitor { return []Monitor{NewC02()} }
		p.Rule = "same exploration; every transition checks zero-sum, supply, deltas == emitted bank transfers, and the op's exact due (fee + reservation, settlement allocations/refunds/unsold/proceeds, instalments); non-trivial = distinct bids / modifications / settlements with a winner / instalment releases"
	case "C07":
		p.Scenarios = []*Scenario{S3(tier, false), S1a(tier, true), S2a(tier, false)}
		if !quick {
			p.Scenarios = append([]*Scenario{S3(tier, false), S3(tier, true)}, moneyScenarios(tier)...)
		}
		p.Monitors = func() []Monitor { return []Monitor{NewC07(), NewC07b()} }
		p.Level = "model_checking"
		p.Rule = "every explored state x every later timeline instant: the module's registered block hook must return nil and not panic; non-trivial = distinct (pre-state, block time) pairs in which the block changed the module state, plus distinct status vectors"
	default:
		return nil, fmt.Errorf("no plan for property %q", prop)
	}
	return p, nil
}

// moneyScenarios is the scenario set of the balance properties (C01, C02, C04, C05).
func moneyScenarios(tier string) []*Scenario {
	out := []*Scenario{S1a(tier, true), S1b(tier, "0.5", false), S1b(tier, "3", true), S2a(tier, false), S2b(tier, 0, true), S2b(tier, 2, false)}
	if tier == "thorough" {
		out = append(out, S1a(tier, false), S1b(tier, "0.333333333333333333", true), S2a(tier, true), S2b(tier, 1, true))
	}
	return out
}
