package mc

import (
	"bytes"
	"context"
	sdkmath "cosmossdk.io/math"
	"encoding/json"
	"fmt"
	"math/big"
	"net"
	"os"
	"os/exec"
	"path/filepath"
	"regexp"
	"sort"
	"strings"
	"time"

	autocliv1 "cosmossdk.io/api/cosmos/autocli/v1"
	"cosmossdk.io/x/tx/signing/aminojson"
	sdk "github.com/cosmos/cosmos-sdk/types"
	banktypes "github.com/cosmos/cosmos-sdk/x/bank/types"
	gogoproto "github.com/cosmos/gogoproto/proto"
	fkeeper "github.com/tendermint/fundraising/x/fundraising/keeper"
	"google.golang.org/protobuf/proto"
	"google.golang.org/protobuf/reflect/protoreflect"
	"google.golang.org/protobuf/reflect/protoregistry"
	"google.golang.org/protobuf/types/dynamicpb"

	fmodule "github.com/tendermint/fundraising/x/fundraising/module"
	ftypes "github.com/tendermint/fundraising/x/fundraising/types"

	"verif/mc/world"
)

// -------------------------------------------------------------------------------------------
// C20 — the shipped node binary starts and wires every message and query correctly.
// Exploration over configurations: the whole command tree of the freshly built default binary.
// -------------------------------------------------------------------------------------------

type cmdNode struct {
	Path []string
	Help string
	Subs []string
	Use  string
}

var reSub = regexp.MustCompile(`(?m)^  ([a-z][a-z0-9-]*) +\S`)

func runCmd(timeout time.Duration, env []string, bin string, args ...string) (string, string, int) {
	ctx, cancel := context.WithTimeout(context.Background(), timeout)
	defer cancel()
	c := exec.CommandContext(ctx, bin, args...)
	c.Env = env
	var so, se bytes.Buffer
	c.Stdout, c.Stderr = &so, &se
	err := c.Run()
	code := 0
	if err != nil {
		code = 1
		if ee, ok := err.(*exec.ExitError); ok {
			code = ee.ExitCode()
		}
	}
	return so.String(), se.String(), code
}

func parseSubs(help string) []string {
	i := strings.Index(help, "Available Commands:")
	if i < 0 {
		return nil
	}
	rest := help[i+len("Available Commands:"):]
	if j := strings.Index(rest, "\n\n"); j >= 0 {
		rest = rest[:j]
	}
	var out []string
	for _, m := range reSub.FindAllStringSubmatch(rest, -1) {
		out = append(out, m[1])
	}
	return out
}

func usageLine(help string) string {
	i := strings.Index(help, "Usage:")
	if i < 0 {
		return ""
	}
	for _, l := range strings.Split(help[i:], "\n")[1:] {
		if t := strings.TrimSpace(l); t != "" {
			return t
		}
	}
	return ""
}

var rePlaceholder = regexp.MustCompile(`\[([a-z0-9-]+)\]`)

func kebab(s string) string { return strings.ReplaceAll(s, "_", "-") }

type leafReport struct {
	Command    string            `json:"command"`
	Positional []string          `json:"positional"`
	Typed      []string          `json:"typed,omitempty"`
	Sent       map[string]string `json:"sent,omitempty"`
}

// RunBinary is the Custom executor of the C20 plan (and the outside view of C10's switch).
func RunBinary(p *Plan, o ExecOpts) (*ExecOut, error) {
	start := time.Now()
	ev := &Evidence{PropertyID: p.Prop, Tier: p.Tier, Seed: o.Seed, Level: p.Level, Coverage: map[string]any{}, Assumptions: p.Assume}
	var viol []Violation
	bad := func(sig, f string, a ...any) {
		viol = append(viol, Violation{Prop: p.Prop, Sig: sig, Detail: fmt.Sprintf(f, a...)})
	}
	evaluations := 0
	distinct := map[string]bool{}
	var samples []any

	srcRoot := o.SrcRoot
	if srcRoot == "" {
		srcRoot = o.Root
	}
	bin := filepath.Join(srcRoot, "bin", "fundraisingd")
	tmp, err := os.MkdirTemp("", "fmc-bin-")
	if err != nil {
		return nil, err
	}
	defer os.RemoveAll(tmp)
	// DBUS_SESSION_BUS_ADDRESS: the SDK's keyring probes the desktop secret service through D-Bus; with the
	// variable unset every invocation of the binary would auto-launch a dbus-daemon that outlives it.
	env := append(goEnv(), "HOME="+tmp, "DBUS_SESSION_BUS_ADDRESS=unix:path=/nonexistent/verif-no-dbus")
	{
		c := exec.Command("go", "build", "-o", bin, "./cmd/fundraisingd")
		c.Dir = RepoDir()
		c.Env = goEnv()
		if out, err := c.CombinedOutput(); err != nil {
			return nil, fmt.Errorf("building the node binary: %v\n%s", err, out)
		}
	}
	home := filepath.Join(tmp, "home")
	base := []string{"--home=" + home}
	// 1. start-up
	so, se, code := runCmd(60*time.Second, env, bin, append([]string{"--help"}, base...)...)
	evaluations++
	if code != 0 || !strings.Contains(so, "Available Commands") {
		bad("binary-does-not-start", "`fundraisingd --help` exits %d: %s", code, firstLine(strings.TrimSpace(se+so)))
		finishBinary(ev, p, evaluations, distinct, samples, start, false)
		return Adjudicate(p, o, viol, ev)
	}

	// 2. in-process: AutoCLI options x registered descriptors
	w, err := world.New(world.Config{Balances: stdBalances(), Params: params("", "", 1)})
	if err != nil {
		return nil, err
	}
	am := fmodule.NewAppModule(w.App.AppCodec(), w.K, w.App.AccountKeeper, w.App.BankKeeper)
	opts := am.AutoCLIOptions()
	bound := map[string]map[string]*autocliv1.RpcCommandOptions{"query": {}, "tx": {}}
	svcOf := map[string]protoreflect.ServiceDescriptor{}
	for kind, sd := range map[string]*autocliv1.ServiceCommandDescriptor{"query": opts.Query, "tx": opts.Tx} {
		d, err := protoregistry.GlobalFiles.FindDescriptorByName(protoreflect.FullName(sd.Service))
		if err != nil {
			bad("service-not-registered/"+kind, "service %s named by the command options is not a registered protobuf service: %v", sd.Service, err)
			continue
		}
		svc := d.(protoreflect.ServiceDescriptor)
		svcOf[kind] = svc
		for _, rc := range sd.RpcCommandOptions {
			evaluations++
			m := svc.Methods().ByName(protoreflect.Name(rc.RpcMethod))
			if m == nil {
				bad("unknown-rpc/"+kind+"/"+rc.RpcMethod, "command options name RPC %s which %s does not define", rc.RpcMethod, sd.Service)
				continue
			}
			bound[kind][rc.RpcMethod] = rc
			fields := m.Input().Fields()
			for i, pa := range rc.PositionalArgs {
				evaluations++
				distinct[kind+"/"+rc.RpcMethod+"/"+pa.ProtoField] = true
				if fields.ByName(protoreflect.Name(pa.ProtoField)) == nil {
					bad("positional-binding-unknown-field/"+rc.RpcMethod+"/"+pa.ProtoField, "%s command %q: positional argument %d binds to field %q which %s does not have (fields: %s)", kind, rc.Use, i, pa.ProtoField, m.Input().FullName(), fieldNames(fields))
				}
			}
			// the Use string documents the arguments: placeholders must match the bound fields in order
			ph := rePlaceholder.FindAllStringSubmatch(rc.Use, -1)
			if len(ph) != len(rc.PositionalArgs) {
				bad("use-string-arity/"+rc.RpcMethod, "command %q documents %d arguments but binds %d", rc.Use, len(ph), len(rc.PositionalArgs))
			} else {
				for i, x := range ph {
					if x[1] != kebab(rc.PositionalArgs[i].ProtoField) {
						bad("use-string-mismatch/"+rc.RpcMethod+"/"+x[1], "command %q: argument %d is documented as [%s] but binds to field %q", rc.Use, i, x[1], rc.PositionalArgs[i].ProtoField)
					}
				}
			}
			// by-id queries must bind every key part of their request
			if kind == "query" && strings.HasPrefix(rc.RpcMethod, "Get") && len(rc.PositionalArgs) != fields.Len() {
				bad("key-parts-unbound/"+rc.RpcMethod, "command %q binds %d of the %d key fields of %s (%s)", rc.Use, len(rc.PositionalArgs), fields.Len(), m.Input().FullName(), fieldNames(fields))
			}
		}
	}

	// 2a'. the one message users cannot sign: MsgUpdateParams must be wired to the governance module
	// account (the application decides the authority when it provides the module), and only to it.
	{
		evaluations++
		distinct["authority-wiring"] = true
		if got, want := w.K.GetAuthority(), GovAddr(); got != want {
			bad("authority-not-governance", "the application wires MsgUpdateParams to authority %s; the governance module account is %s, so no governance proposal can ever change the module's parameters", got, want)
		}
		ctx, _ := w.Base().CacheContext()
		res := RunTx(w, ctx, &ftypes.MsgUpdateParams{Authority: GovAddr(), Params: ftypes.DefaultParams()})
		evaluations++
		if !res.OK() {
			bad("update-params-unreachable", "MsgUpdateParams signed by the governance module account is refused by the application's message router: %s", res.ErrStr)
		}
	}

	// 2b. can the answers be displayed? AutoCLI renders every response with the amino-JSON encoder
	// driven by the registered descriptors' options; do the same, in-process, on real answers from a
	// state holding an auction, an allow-list entry, a bid and two instalments.
	{
		nd, _, err := replayOps(w, &Scenario{Name: "display"}, chainGenesisOps(), nil)
		if err != nil {
			return nil, err
		}
		qs := fkeeper.NewQueryServerImpl(w.K)
		bid1 := world.A("bid1").Bech32
		answers := map[string]func() (gogoproto.Message, error){
			"Params":      func() (gogoproto.Message, error) { return qs.Params(nd.ctx, &ftypes.QueryParamsRequest{}) },
			"ListAuction": func() (gogoproto.Message, error) { return qs.ListAuction(nd.ctx, &ftypes.QueryAllAuctionRequest{}) },
			"GetAuction": func() (gogoproto.Message, error) {
				return qs.GetAuction(nd.ctx, &ftypes.QueryGetAuctionRequest{AuctionId: 0})
			},
			"ListAllowedBidder": func() (gogoproto.Message, error) {
				return qs.ListAllowedBidder(nd.ctx, &ftypes.QueryAllAllowedBidderRequest{})
			},
			"GetAllowedBidder": func() (gogoproto.Message, error) {
				return qs.GetAllowedBidder(nd.ctx, &ftypes.QueryGetAllowedBidderRequest{AuctionId: 0, Bidder: bid1})
			},
			"ListBid": func() (gogoproto.Message, error) { return qs.ListBid(nd.ctx, &ftypes.QueryAllBidRequest{}) },
			"GetBid": func() (gogoproto.Message, error) {
				return qs.GetBid(nd.ctx, &ftypes.QueryGetBidRequest{AuctionId: 0, BidId: 1})
			},
			"ListVestingQueue": func() (gogoproto.Message, error) {
				return qs.ListVestingQueue(nd.ctx, &ftypes.QueryAllVestingQueueRequest{})
			},
		}
		enc := aminojson.NewEncoder(aminojson.EncoderOptions{FileResolver: protoregistry.GlobalFiles, TypeResolver: protoregistry.GlobalTypes})
		if svc, ok := svcOf["query"]; ok {
			for i := 0; i < svc.Methods().Len(); i++ {
				m := svc.Methods().Get(i)
				f, ok := answers[string(m.Name())]
				evaluations++
				if !ok {
					bad("display/no-sample-answer/"+string(m.Name()), "query RPC %s has no sample call in the display check", m.Name())
					continue
				}
				resp, err := f()
				if err != nil {
					bad("display/query-error/"+string(m.Name()), "%s on the sample state: %v", m.Name(), err)
					continue
				}
				bz, err := gogoproto.Marshal(resp)
				if err != nil {
					return nil, err
				}
				dyn := dynamicpb.NewMessage(m.Output())
				if err := (proto.UnmarshalOptions{Resolver: protoregistry.GlobalTypes}).Unmarshal(bz, dyn); err != nil {
					bad("display/descriptor-mismatch/"+string(m.Name()), "the answer of %s cannot be read with the registered descriptor: %v", m.Name(), err)
					continue
				}
				distinct["display/"+string(m.Name())] = true
				if _, err := enc.Marshal(dyn); err != nil {
					bad("query-answer-not-displayable/"+string(m.Name()), "the answer of %s cannot be rendered by the encoder AutoCLI prints query answers with: %v", m.Name(), err)
				}
			}
		}
	}

	// 2c. command names and aliases: within a service every name (primary or alias) designates one command
	aliasOf := map[string]map[string]string{"query": {}, "tx": {}} // name or alias -> primary command name
	for kind, sd := range map[string]*autocliv1.ServiceCommandDescriptor{"query": opts.Query, "tx": opts.Tx} {
		for _, rc := range sd.RpcCommandOptions {
			if rc.Skip {
				continue
			}
			primary := kebabCase(rc.RpcMethod)
			if rc.Use != "" {
				primary = strings.Fields(rc.Use)[0]
			}
			for _, nm := range append([]string{primary}, rc.Alias...) {
				evaluations++
				distinct["name/"+kind+"/"+nm] = true
				if other, dup := aliasOf[kind][nm]; dup && other != primary {
					bad("command-name-collision/"+kind+"/"+nm, "`%s fundraising %s` is declared for both %q and %q: one of the two RPCs cannot be reached under that name", kind, nm, other, primary)
				}
				aliasOf[kind][nm] = primary
			}
		}
	}

	// 3. the command tree of the binary, breadth first, --help on every node
	var leaves []cmdNode
	treeNodes := 0
	for _, kind := range []string{"query", "tx"} {
		queue := [][]string{{kind, "fundraising"}}
		for len(queue) > 0 {
			path := queue[0]
			queue = queue[1:]
			so, se, code := runCmd(60*time.Second, env, bin, append(append(append([]string{}, path...), "--help"), base...)...)
			evaluations++
			treeNodes++
			distinct["node/"+strings.Join(path, " ")] = true
			if code != 0 {
				bad("help-fails/"+strings.Join(path, "-"), "`%s --help` exits %d: %s", strings.Join(path, " "), code, firstLine(strings.TrimSpace(se)))
				continue
			}
			n := cmdNode{Path: path, Help: so, Subs: parseSubs(so), Use: usageLine(so)}
			if len(n.Subs) == 0 {
				leaves = append(leaves, n)
				continue
			}
			for _, s := range n.Subs {
				queue = append(queue, append(append([]string{}, path...), s))
			}
		}
	}
	// every declared alias must resolve, in the real binary, to the command it is declared for
	for kind, m := range aliasOf {
		for nm, primary := range m {
			if nm == primary {
				continue
			}
			so, se, code := runCmd(60*time.Second, env, bin, append([]string{kind, "fundraising", nm, "--help"}, base...)...)
			evaluations++
			u := usageLine(so)
			f := strings.Fields(u)
			got := ""
			if len(f) >= 4 {
				got = f[3]
			}
			if code != 0 || got != primary {
				bad("alias-resolves-elsewhere/"+kind+"/"+nm, "`%s fundraising %s` is declared as an alias of %q but the binary resolves it to %q (exit %d %s)", kind, nm, primary, got, code, firstLine(strings.TrimSpace(se)))
			}
		}
	}

	// every RPC of both services is reachable (bound command, or the generated default), except
	// the documented exemptions
	leafNames := map[string]bool{}
	for _, l := range leaves {
		leafNames[l.Path[0]+"/"+l.Path[len(l.Path)-1]] = true
	}
	exempt := map[string]string{"tx/UpdateParams": "authority-gated: submitted through a governance proposal", "tx/AddAllowedBidder": "disabled in default builds (C10)"}
	for kind, svc := range svcOf {
		for i := 0; i < svc.Methods().Len(); i++ {
			m := svc.Methods().Get(i)
			name := string(m.Name())
			evaluations++
			cmdName := kebabCase(name)
			if rc, ok := bound[kind][name]; ok {
				if rc.Skip {
					if _, ok := exempt[kind+"/"+name]; !ok {
						bad("rpc-skipped/"+name, "RPC %s is skipped by the command options without a documented reason", name)
					}
					continue
				}
				if rc.Use != "" {
					cmdName = strings.Fields(rc.Use)[0]
				}
			}
			if !leafNames[kind+"/"+cmdName] {
				if _, ok := exempt[kind+"/"+name]; ok {
					continue
				}
				bad("rpc-unreachable/"+name, "RPC %s of %s has no command in the binary's `%s fundraising` tree (expected %q)", name, svc.FullName(), kind, cmdName)
			}
		}
	}

	// 4. tx leaves: typed arguments vs the generated transaction
	from := world.A("auc1").Bech32
	for _, l := range leaves {
		if l.Path[0] != "tx" {
			continue
		}
		name := l.Path[len(l.Path)-1]
		var rc *autocliv1.RpcCommandOptions
		var md protoreflect.MethodDescriptor
		for m, x := range bound["tx"] {
			if x.Use != "" && strings.Fields(x.Use)[0] == name {
				rc = x
				md = svcOf["tx"].Methods().ByName(protoreflect.Name(m))
			}
		}
		if rc == nil || md == nil {
			continue // generated default command (flags only): covered by --help above
		}
		var typed []string
		expect := map[string]string{}
		ok := true
		for i, pa := range rc.PositionalArgs {
			fd := md.Input().Fields().ByName(protoreflect.Name(pa.ProtoField))
			if fd == nil {
				ok = false
				break
			}
			t, want := sentinelFor(fd, i)
			typed = append(typed, t)
			expect[pa.ProtoField] = want
		}
		if !ok {
			continue
		}
		args := append(append(append([]string{}, l.Path...), typed...), "--from", from, "--generate-only", "--offline", "--account-number", "1", "--sequence", "0")
		so, se, code := runCmd(60*time.Second, env, bin, append(args, base...)...)
		evaluations++
		rep := leafReport{Command: strings.Join(l.Path, " "), Typed: typed, Sent: map[string]string{}}
		for _, pa := range rc.PositionalArgs {
			rep.Positional = append(rep.Positional, pa.ProtoField)
		}
		if code != 0 {
			bad("generate-only-fails/"+name, "`%s %s --generate-only --offline` exits %d: %s", strings.Join(l.Path, " "), strings.Join(typed, " "), code, firstLine(strings.TrimSpace(se+so)))
			continue
		}
		var tx struct {
			Body struct {
				Messages []map[string]any `json:"messages"`
			} `json:"body"`
		}
		if err := json.Unmarshal([]byte(so), &tx); err != nil || len(tx.Body.Messages) != 1 {
			bad("generate-only-output/"+name, "cannot read the generated transaction of %s: %v", name, err)
			continue
		}
		msg := tx.Body.Messages[0]
		for field, want := range expect {
			gotBz, _ := json.Marshal(msg[field])
			got := string(gotBz)
			rep.Sent[field] = got
			distinct["arg/"+name+"/"+field] = true
			evaluations++
			if normJSON(got) != normJSON(want) {
				bad("cli-arg-mistransmitted/"+name+"/"+field, "`%s`: the user types %q for [%s] but the generated %s carries %s=%s (expected %s)", strings.Join(l.Path, " "), typed[indexOf(rc, field)], kebab(field), msg["@type"], field, got, want)
			}
		}
		// the signer is taken from --from
		if s := signerField(md.Input()); s != "" {
			if fmt.Sprint(msg[s]) != from {
				bad("signer-not-from/"+name, "%s: field %s is %v, --from is %s", name, s, msg[s], from)
			}
		}
		if len(samples) < 6 {
			samples = append(samples, rep)
		}
	}
	ev.Coverage["tree_nodes"] = treeNodes
	var leafList []string
	for _, l := range leaves {
		leafList = append(leafList, strings.Join(l.Path, " "))
	}
	sort.Strings(leafList)
	ev.Coverage["leaves"] = leafList
	// C10's outside view: recorded for the evidence (the generated default command exists whatever the
	// switch says; what matters is that the node refuses the message, which C10 checks in-process)
	ev.Coverage["add_allowed_bidder_command_is_custom_bound"] = bound["tx"]["AddAllowedBidder"] != nil

	// 5. thorough: a one-node chain from a genesis exported by the explorer, blocks, every query leaf
	if p.Tier == "thorough" {
		vs, n, smp, err := runChain(w, bin, env, tmp, leaves)
		if err != nil {
			return nil, err
		}
		viol = append(viol, vs...)
		evaluations += n
		samples = append(samples, smp...)
		ev.Coverage["one_node_chain"] = true
	}
	finishBinary(ev, p, evaluations, distinct, samples, start, true)
	return Adjudicate(p, o, viol, ev)
}

func finishBinary(ev *Evidence, p *Plan, evaluations int, distinct map[string]bool, samples []any, start time.Time, complete bool) {
	if len(samples) == 0 {
		samples = append(samples, "the binary did not start; nothing behind it could be enumerated")
	}
	ev.Coverage["evaluations"] = evaluations
	ev.Coverage["distinct_nontrivial"] = len(distinct)
	ev.Coverage["rule"] = p.Rule
	ev.Coverage["samples"] = samples
	ev.Coverage["exhaustive"] = complete
	ev.WallS = time.Since(start).Seconds()
}

func fieldNames(fs protoreflect.FieldDescriptors) string {
	var n []string
	for i := 0; i < fs.Len(); i++ {
		n = append(n, string(fs.Get(i).Name()))
	}
	return strings.Join(n, ", ")
}

func kebabCase(camel string) string {
	var sb strings.Builder
	for i, c := range camel {
		if c >= 'A' && c <= 'Z' {
			if i > 0 {
				sb.WriteByte('-')
			}
			sb.WriteRune(c - 'A' + 'a')
		} else {
			sb.WriteRune(c)
		}
	}
	return sb.String()
}

func indexOf(rc *autocliv1.RpcCommandOptions, field string) int {
	for i, pa := range rc.PositionalArgs {
		if pa.ProtoField == field {
			return i
		}
	}
	return 0
}

func signerField(md protoreflect.MessageDescriptor) string {
	for _, n := range []string{"auctioneer", "bidder", "authority"} {
		if md.Fields().ByName(protoreflect.Name(n)) != nil {
			return n
		}
	}
	return ""
}

func normJSON(s string) string {
	var v any
	if err := json.Unmarshal([]byte(s), &v); err != nil {
		return s
	}
	b, _ := json.Marshal(v)
	return string(b)
}

func isDecField(fd protoreflect.FieldDescriptor) bool {
	// the module's decimal fields are strings carrying the cosmos.Dec scalar annotation
	return fd.Kind() == protoreflect.StringKind && strings.Contains(fmt.Sprint(fd.Options()), "cosmos.Dec")
}

// sentinelFor returns what the user types for positional i and the JSON the request must carry.
func sentinelFor(fd protoreflect.FieldDescriptor, i int) (typed, wantJSON string) {
	n := 41 + i
	switch {
	case fd.IsList() && fd.Kind() == protoreflect.MessageKind:
		// vesting schedules: one JSON object per element
		return `{"release_time":"2031-01-05T00:00:00Z","weight":"1"}`, `[{"release_time":"2031-01-05T00:00:00Z","weight":"1.000000000000000000"}]`
	case fd.Kind() == protoreflect.Uint64Kind:
		return fmt.Sprint(n), fmt.Sprintf("%q", fmt.Sprint(n))
	case fd.Kind() == protoreflect.Uint32Kind:
		return fmt.Sprint(i + 1), fmt.Sprint(i + 1)
	case fd.Kind() == protoreflect.EnumKind:
		v := fd.Enum().Values().Get(fd.Enum().Values().Len() - 1)
		name := string(v.Name())
		short := strings.ToLower(strings.ReplaceAll(strings.TrimPrefix(name, "BID_TYPE_"), "_", "-"))
		return short, fmt.Sprintf("%q", name)
	case isDecField(fd):
		return fmt.Sprint(i + 2), fmt.Sprintf("%q", fmt.Sprintf("%d.000000000000000000", i+2))
	case fd.Kind() == protoreflect.MessageKind && fd.Message().FullName() == "cosmos.base.v1beta1.Coin":
		return fmt.Sprintf("%dacoin", n), fmt.Sprintf(`{"denom":"acoin","amount":"%d"}`, n)
	case fd.Kind() == protoreflect.MessageKind && fd.Message().FullName() == "google.protobuf.Timestamp":
		t := fmt.Sprintf("2031-01-%02dT00:00:00Z", i+1)
		return t, fmt.Sprintf("%q", t)
	case fd.Kind() == protoreflect.StringKind && strings.Contains(string(fd.Name()), "denom"):
		return "bcoin", `"bcoin"`
	case fd.Kind() == protoreflect.StringKind:
		a := world.A("bid1").Bech32
		return a, fmt.Sprintf("%q", a)
	}
	return fmt.Sprint(n), fmt.Sprintf("%q", fmt.Sprint(n))
}

// ---- one-node chain (thorough) ----

func freePort() int {
	l, err := net.Listen("tcp", "127.0.0.1:0")
	if err != nil {
		return 0
	}
	defer l.Close()
	return l.Addr().(*net.TCPAddr).Port
}

func runChain(w *world.World, bin string, env []string, tmp string, leaves []cmdNode) ([]Violation, int, []any, error) {
	var vs []Violation
	bad := func(sig, f string, a ...any) {
		vs = append(vs, Violation{Prop: "C20", Sig: sig, Detail: fmt.Sprintf(f, a...)})
	}
	n := 0
	var samples []any
	home := filepath.Join(tmp, "chain")
	chainID := "verif-chain"
	run := func(args ...string) (string, string, int) {
		n++
		return runCmd(120*time.Second, env, bin, append(args, "--home="+home)...)
	}
	// a state holding an auction, an allow-list entry, a bid and an instalment, built by the explorer
	nd, _, err := replayOps(w, &Scenario{Name: "chain-genesis"}, chainGenesisOps(), nil)
	if err != nil {
		return nil, 0, nil, err
	}
	gs, err := fmodule.ExportGenesis(nd.ctx, w.K)
	if err != nil {
		return nil, 0, nil, err
	}
	if _, se, code := run("init", "verif", "--chain-id", chainID); code != 0 {
		bad("chain/init-fails", "init: %s", firstLine(se))
		return vs, n, samples, nil
	}
	// key for the validator
	kr := []string{"--keyring-backend", "test"}
	if _, se, code := run(append([]string{"keys", "add", "val"}, kr...)...); code != 0 {
		bad("chain/keys-add-fails", "keys add: %s", firstLine(se))
		return vs, n, samples, nil
	}
	valAddr, _, _ := run(append([]string{"keys", "show", "val", "-a"}, kr...)...)
	valAddr = strings.TrimSpace(valAddr)
	if _, se, code := run(append([]string{"genesis", "add-genesis-account", valAddr, "200000000stake"}, kr...)...); code != 0 {
		bad("chain/add-genesis-account-fails", "%s", firstLine(se))
		return vs, n, samples, nil
	}
	if _, se, code := run(append([]string{"genesis", "gentx", "val", "100000000stake", "--chain-id", chainID}, kr...)...); code != 0 {
		bad("chain/gentx-fails", "%s", firstLine(se))
		return vs, n, samples, nil
	}
	if _, se, code := run("genesis", "collect-gentxs"); code != 0 {
		bad("chain/collect-gentxs-fails", "%s", firstLine(se))
		return vs, n, samples, nil
	}
	// patch: module genesis exported by the explorer + matching escrow balances
	gpath := filepath.Join(home, "config", "genesis.json")
	raw, err := os.ReadFile(gpath)
	if err != nil {
		return nil, 0, nil, err
	}
	var doc map[string]json.RawMessage
	if err := json.Unmarshal(raw, &doc); err != nil {
		return nil, 0, nil, err
	}
	var appState map[string]json.RawMessage
	json.Unmarshal(doc["app_state"], &appState)
	cdc := w.App.AppCodec()
	appState[ftypes.ModuleName] = cdc.MustMarshalJSON(gs)
	var bank banktypes.GenesisState
	cdc.MustUnmarshalJSON(appState[banktypes.ModuleName], &bank)
	st, _ := w.Snapshot(nd.ctx)
	for _, a := range st.Auctions {
		for _, addr := range []string{a.SellAddr, a.PayAddr, a.VestAddr} {
			var cs sdk.Coins
			for d, v := range st.Bal[addr] {
				cs = cs.Add(sdk.NewCoin(d, mathIntFromBig(v)))
			}
			if !cs.IsZero() {
				bank.Balances = append(bank.Balances, banktypes.Balance{Address: addr, Coins: cs})
				bank.Supply = bank.Supply.Add(cs...)
			}
		}
	}
	bank.Balances = banktypes.SanitizeGenesisBalances(bank.Balances)
	appState[banktypes.ModuleName] = cdc.MustMarshalJSON(&bank)
	doc["app_state"], _ = json.Marshal(appState)
	out, _ := json.MarshalIndent(doc, "", " ")
	if err := os.WriteFile(gpath, out, 0o644); err != nil {
		return nil, 0, nil, err
	}
	if _, se, code := run("genesis", "validate"); code != 0 {
		bad("chain/genesis-validate-fails", "the patched genesis (module genesis exported by the explorer) does not validate: %s", firstLine(strings.TrimSpace(se)))
		return vs, n, samples, nil
	}
	// 200 ms blocks
	cpath := filepath.Join(home, "config", "config.toml")
	if cbz, err := os.ReadFile(cpath); err == nil {
		cs := regexp.MustCompile(`(?m)^timeout_commit = .*$`).ReplaceAllString(string(cbz), `timeout_commit = "200ms"`)
		os.WriteFile(cpath, []byte(cs), 0o644)
	}
	rpc, p2p, grpcP, pprofP := freePort(), freePort(), freePort(), freePort()
	args := []string{"start", "--home=" + home,
		"--rpc.laddr", fmt.Sprintf("tcp://127.0.0.1:%d", rpc), "--p2p.laddr", fmt.Sprintf("tcp://127.0.0.1:%d", p2p),
		"--grpc.address", fmt.Sprintf("127.0.0.1:%d", grpcP), "--rpc.pprof_laddr", fmt.Sprintf("127.0.0.1:%d", pprofP),
		"--api.enable=false", "--grpc-web.enable=false", "--minimum-gas-prices", "0stake"}
	node := exec.Command(bin, args...)
	node.Env = env
	var nlog bytes.Buffer
	node.Stdout, node.Stderr = &nlog, &nlog
	if err := node.Start(); err != nil {
		return nil, 0, nil, err
	}
	exited := make(chan struct{})
	go func() { node.Wait(); close(exited) }()
	defer func() {
		node.Process.Signal(os.Interrupt)
		select {
		case <-exited:
		case <-time.After(10 * time.Second):
			node.Process.Kill()
		}
	}()
	nodeURL := fmt.Sprintf("tcp://127.0.0.1:%d", rpc)
	height := 0
	deadline := time.Now().Add(240 * time.Second)
	nodeDied := false
	for time.Now().Before(deadline) {
		select {
		case <-exited:
			nodeDied = true
		default:
		}
		if nodeDied {
			break
		}
		so, _, code := runCmd(10*time.Second, env, bin, "status", "--node", nodeURL, "--home="+home)
		if code == 0 {
			var s struct {
				SyncInfo struct {
					H string `json:"latest_block_height"`
				} `json:"sync_info"`
			}
			if json.Unmarshal([]byte(so), &s) == nil {
				fmt.Sscan(s.SyncInfo.H, &height)
				if height >= 3 {
					break
				}
			}
		}
		time.Sleep(500 * time.Millisecond)
	}
	n++
	if height < 3 {
		tail := nlog.String()
		if len(tail) > 1500 {
			tail = tail[len(tail)-1500:]
		}
		if nodeDied {
			// the node process terminated by itself: that is a failure to start / run, whatever the speed of the machine
			bad("chain/node-exited", "the one-node chain process exited at height %d; log tail: %s", height, tail)
		} else {
			// still running but slow: no wall-clock oracle — reported as inconclusive, never as a violation
			samples = append(samples, map[string]any{"one_node_chain": fmt.Sprintf("inconclusive: height %d after 240 s, node still running", height)})
		}
		return vs, n, samples, nil
	}
	// every query leaf answers with the exported objects
	q := func(args ...string) (map[string]any, string) {
		n++
		so, se, code := runCmd(30*time.Second, env, bin, append(append([]string{"query", "fundraising"}, args...), "--node", nodeURL, "--output", "json", "--home="+home)...)
		if code != 0 {
			// is it only the JSON rendering? try the default (text) output as well
			_, se2, code2 := runCmd(30*time.Second, env, bin, append(append([]string{"query", "fundraising"}, args...), "--node", nodeURL, "--home="+home)...)
			also := "; the default text output fails the same way"
			if code2 == 0 {
				also = "; the default text output works"
			} else if !strings.Contains(se2, "cannot marshal response") {
				also = "; text output: " + firstLine(strings.TrimSpace(se2))
			}
			msg := firstLine(strings.TrimSpace(se + so))
			if i := strings.Index(msg, "cannot marshal response"); i >= 0 {
				if j := strings.LastIndex(msg, ": "); j > i {
					msg = "cannot marshal response …" + msg[j:]
				}
			}
			return nil, msg + also
		}
		var m map[string]any
		if err := json.Unmarshal([]byte(so), &m); err != nil {
			return nil, "unreadable answer: " + firstLine(so)
		}
		return m, ""
	}
	bid1 := world.A("bid1").Bech32
	type qc struct {
		args []string
		must string // substring that the JSON answer must contain
	}
	for _, c := range []qc{
		{[]string{"params"}, `"extended_period"`},
		{[]string{"list-auction"}, `"selling_reserve_address"`},
		{[]string{"get-auction", "0"}, world.A("auc1").Bech32},
		{[]string{"list-bid"}, bid1},
		{[]string{"get-bid", "0", "1"}, bid1},
		{[]string{"list-allowed-bidder"}, `"max_bid_amount"`},
		{[]string{"get-allowed-bidder", "0", bid1}, `"max_bid_amount"`},
		{[]string{"list-vesting-queue"}, `"release_time"`},
	} {
		m, e := q(c.args...)
		name := c.args[0]
		if e != "" {
			bad("chain/query-fails/"+name, "`query fundraising %s` against the running node: %s", strings.Join(c.args, " "), e)
			continue
		}
		bz, _ := json.Marshal(m)
		if !strings.Contains(string(bz), c.must) {
			bad("chain/query-answer/"+name, "`query fundraising %s` answers %s, expected the exported object (containing %s)", strings.Join(c.args, " "), trunc(string(bz)), c.must)
		}
		if len(samples) < 12 {
			samples = append(samples, map[string]any{"query": strings.Join(c.args, " "), "answer": trunc(string(bz))})
		}
	}
	// every query leaf of the tree was exercised
	done := map[string]bool{"params": true, "list-auction": true, "get-auction": true, "list-bid": true, "get-bid": true, "list-allowed-bidder": true, "get-allowed-bidder": true, "list-vesting-queue": true}
	for _, l := range leaves {
		if l.Path[0] == "query" && !done[l.Path[len(l.Path)-1]] {
			bad("chain/query-leaf-not-exercised/"+l.Path[len(l.Path)-1], "query leaf %s exists in the binary but the chain check has no call for it", strings.Join(l.Path, " "))
		}
	}
	samples = append(samples, map[string]any{"one_node_chain_height": height})
	return vs, n, samples, nil
}

func trunc(s string) string {
	if len(s) > 300 {
		return s[:300] + "…"
	}
	return s
}

func mathIntFromBig(v *big.Int) sdkmath.Int { return sdkmath.NewIntFromBigInt(v) }

// chainGenesisOps builds the sample state: an auction (vesting), an allow-list entry, a bid, two instalments.
func chainGenesisOps() []Op {
	return []Op{
		{Kind: "create_fixed", Signer: "auc1", StartPrice: "1", Sell: "10acoin", PayDenom: "bcoin", StartK: 0, EndK: 2, Sched: sched(300, 400)},
		{Kind: "add_allowed", AID: 0, Bidder: "bid1", Max: "10"},
		{Kind: "place", Signer: "bid1", AID: 0, BidType: 1, Price: "1", Denom: "bcoin", Amt: "4"},
		{Kind: "block", K: 2},
	}
}

// RepoDir is the repository the checks are built against: /repo, or $VERIF_REPO for isolated runs on
// a scratch copy (seeded/selftest.sh). The registered commands never set it.
func RepoDir() string {
	if d := os.Getenv("VERIF_REPO"); d != "" {
		return d
	}
	return "/repo"
}
