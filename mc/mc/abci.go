package mc

import (
	"fmt"
	"math/rand"
	"strings"
	"sync"

	abci "github.com/cometbft/cometbft/abci/types"
	cmtproto "github.com/cometbft/cometbft/proto/tendermint/types"
	simtestutil "github.com/cosmos/cosmos-sdk/testutil/sims"
	sdk "github.com/cosmos/cosmos-sdk/types"
	authtx "github.com/cosmos/cosmos-sdk/x/auth/tx"

	ftypes "github.com/tendermint/fundraising/x/fundraising/types"

	"verif/mc/ref"
	"verif/mc/world"
)

// -------------------------------------------------------------------------------------------
// Conformance of the emulation with the real node pipeline (DESIGN §2.6).
// A history explored by the emulation (router handler on CacheContext, module BeginBlock called
// directly) is replayed on a fresh application through InitChain / FinalizeBlock / Commit with
// really signed transactions, and compared step by step:
//   * per transaction: accepted <=> response code 0;
//   * per block: FinalizeBlock error <=> block hook error; fundraising store dump and all tracked
//     (non-stake) balances after Commit equal the emulation's after the last op of that block.
// Keeper-API ops (add/update allowed bidder: calls made by other modules) cannot be transactions:
// they are applied between blocks on the committed state and followed by a block at the same instant
// on BOTH sides (op kind "block_same"), so that both sides execute exactly the same sequence.
// -------------------------------------------------------------------------------------------

// Applications are built concurrently: a -race run of 24 parallel constructions reported no race.

func isTxKind(k string) bool {
	switch k {
	case "create_fixed", "create_batch", "cancel", "place", "modify", "msg_add_allowed", "update_params":
		return true
	}
	return false
}

func isAPIKind(k string) bool { return k == "add_allowed" || k == "update_allowed" || k == "donate" }

// normalizeForABCI inserts a same-instant block after every run of API ops that is followed by
// transactions, so that the history can be cut into FinalizeBlock calls.
func normalizeForABCI(ops []Op) []Op {
	var out []Op
	for i, op := range ops {
		out = append(out, op)
		if isAPIKind(op.Kind) && i+1 < len(ops) && isTxKind(ops[i+1].Kind) {
			out = append(out, Op{Kind: "block_same"})
		}
		if isTxKind(op.Kind) && i+1 < len(ops) && isAPIKind(ops[i+1].Kind) {
			// the API op must see the transaction's effects: close the block first (nothing to insert:
			// the cut below ends the block at the API op)
		}
	}
	return out
}

type abciResult struct {
	Blocks   int
	Txs      int
	Err      string         // divergence description ("" = conforms)
	Refused  map[string]int // op kind -> signed transactions the node refused (code != 0)
	Accepted map[string]int
}

func signerOf(op Op) string {
	if op.Kind == "msg_add_allowed" {
		return strings.TrimSuffix(op.Bidder, "^")
	}
	if op.Kind == "update_params" {
		return "" // signed by the gov module account: not replayable as a user transaction
	}
	return strings.TrimSuffix(op.Signer, "^") // "<actor>^" is the same account, its address written in upper case
}

// ReplayABCI replays ops through the real ABCI pipeline and compares with the emulation.
func ReplayABCI(cfg world.Config, ops []Op) abciResult {
	ops = normalizeForABCI(ops)
	wE, err1 := world.New(cfg)          // emulation side
	wA, err2 := world.NewUnstarted(cfg) // ABCI side: InitChain only
	if err1 != nil || err2 != nil {
		return abciResult{Err: fmt.Sprintf("cannot build worlds: %v %v", err1, err2)}
	}
	res := abciResult{Refused: map[string]int{}, Accepted: map[string]int{}}
	txCfg := authtx.NewTxConfig(wA.App.AppCodec(), authtx.DefaultSignModes)
	rnd := rand.New(rand.NewSource(7))
	seqs := map[string]uint64{}
	ectx := wE.Base()
	height := int64(1)
	curTime := world.T0
	i := 0
	first := true
	for i < len(ops) || first {
		// one FinalizeBlock: [block op]? txs*
		blockOp := Op{Kind: "genesis-block"}
		if !first {
			if !(ops[i].Kind == "block" || ops[i].Kind == "tick" || ops[i].Kind == "block_same") {
				return abciResult{Err: fmt.Sprintf("internal: op %d (%v) is not a block boundary", i, ops[i])}
			}
			blockOp = ops[i]
			i++
			height++
			switch blockOp.Kind {
			case "block":
				curTime = world.Instant(blockOp.K)
			case "tick":
				curTime = curTime.Add(3600e9)
			}
		}
		first = false
		var txOps []Op
		for i < len(ops) && isTxKind(ops[i].Kind) {
			txOps = append(txOps, ops[i])
			i++
		}
		// --- emulation side ---
		var eBlockErr error
		if blockOp.Kind != "genesis-block" {
			bo := blockOp
			if bo.Kind == "block_same" {
				h := ectx.BlockHeader()
				h.Height++
				ectx = ectx.WithBlockHeader(h).WithEventManager(sdk.NewEventManager())
				eBlockErr = wE.BeginBlock(ectx)
			} else {
				var r Result
				ectx, r = bo.Apply(wE, ectx)
				eBlockErr = r.Err
			}
		}
		eAccepted := make([]bool, len(txOps))
		for j, op := range txOps {
			var r Result
			ectx, r = op.Apply(wE, ectx)
			eAccepted[j] = r.OK()
		}
		// --- ABCI side ---
		var txs [][]byte
		for _, op := range txOps {
			who := signerOf(op)
			act, ok := world.Actors[who]
			if !ok {
				return abciResult{Err: fmt.Sprintf("op %v has no replayable signer", op)}
			}
			msg := op.Msg(wA)
			tx, err := simtestutil.GenSignedMockTx(rnd, txCfg, []sdk.Msg{msg}, sdk.Coins{}, 5_000_000, world.ChainID,
				[]uint64{world.AccountNumber(who)}, []uint64{seqs[who]}, act.Priv)
			if err != nil {
				return abciResult{Err: fmt.Sprintf("cannot sign %v: %v", op, err)}
			}
			bz, err := txCfg.TxEncoder()(tx)
			if err != nil {
				return abciResult{Err: fmt.Sprintf("cannot encode %v: %v", op, err)}
			}
			txs = append(txs, bz)
			// the sequence advances iff the transaction gets past ValidateBasic (the ante handler then
			// increments it whatever the message handler does)
			vbOK := true
			if vb, ok := msg.(hasValidateBasic); ok {
				func() {
					defer func() {
						if recover() != nil {
							vbOK = false
						}
					}()
					vbOK = vb.ValidateBasic() == nil
				}()
			}
			if vbOK {
				seqs[who]++
			}
		}
		var fb *abci.ResponseFinalizeBlock
		var ferr error
		func() {
			// a panic in a block hook is not recovered by the node: it crashes; here it counts as a
			// failing FinalizeBlock, to be compared with the emulated block hook's panic
			defer func() {
				if r := recover(); r != nil {
					ferr = fmt.Errorf("panic in FinalizeBlock: %v", r)
				}
			}()
			fb, ferr = wA.App.FinalizeBlock(&abci.RequestFinalizeBlock{Height: height, Time: curTime, Txs: txs})
		}()
		res.Blocks++
		if (ferr != nil) != (eBlockErr != nil) {
			return abciResult{Blocks: res.Blocks, Txs: res.Txs, Err: fmt.Sprintf("block %d at %s: FinalizeBlock error %v, emulated block hook error %v", height, curTime, ferr, eBlockErr)}
		}
		if ferr != nil {
			return res // both sides report the failure: the chain halts here
		}
		for j, r := range fb.TxResults {
			res.Txs++
			if r.Code == 0 {
				res.Accepted[txOps[j].Kind]++
			} else {
				res.Refused[txOps[j].Kind]++
			}
			if (r.Code == 0) != eAccepted[j] {
				return abciResult{Blocks: res.Blocks, Txs: res.Txs, Err: fmt.Sprintf("block %d tx %d %v: node code %d (%s), emulation accepted=%v", height, j, txOps[j], r.Code, firstLine(r.Log), eAccepted[j])}
			}
		}
		if _, err := wA.App.Commit(); err != nil {
			return abciResult{Err: fmt.Sprintf("commit: %v", err)}
		}
		// keeper-API ops between blocks, on both sides
		for i < len(ops) && isAPIKind(ops[i].Kind) {
			op := ops[i]
			i++
			var er Result
			ectx, er = op.Apply(wE, ectx)
			actx := wA.App.BaseApp.NewUncachedContext(false, cmtproto.Header{ChainID: world.ChainID, Height: height, Time: curTime})
			_, ar := op.Apply(wA, actx.WithEventManager(sdk.NewEventManager()))
			if er.OK() != ar.OK() {
				return abciResult{Err: fmt.Sprintf("API op %v: emulation ok=%v, on the node's committed state ok=%v", op, er.OK(), ar.OK())}
			}
		}
		// compare states
		se, err := wE.Snapshot(ectx)
		if err != nil {
			return abciResult{Err: err.Error()}
		}
		actx := wA.App.BaseApp.NewUncachedContext(false, cmtproto.Header{ChainID: world.ChainID, Height: height, Time: curTime})
		wA.K = wA.App.FundraisingKeeper
		sa, err := wA.Snapshot(actx)
		if err != nil {
			return abciResult{Err: err.Error()}
		}
		if se.RawModule != sa.RawModule {
			return abciResult{Blocks: res.Blocks, Txs: res.Txs, Err: fmt.Sprintf("after block %d the fundraising store differs between node and emulation (%s vs %s)", height, stateClass(sa), stateClass(se))}
		}
		if d := balDiff(se, sa); d != "" {
			return abciResult{Blocks: res.Blocks, Txs: res.Txs, Err: fmt.Sprintf("after block %d balances differ between node and emulation: %s", height, d)}
		}
	}
	return res
}

func balDiff(a, b *ref.State) string {
	for addr, c := range a.Bal {
		if addr == world.DistrAddr {
			continue
		}
		for d, v := range c {
			if b.BalOf(addr, d).Cmp(v) != 0 {
				return fmt.Sprintf("%s %s: %s vs %s", world.NameOf(addr), d, v, b.BalOf(addr, d))
			}
		}
	}
	for addr, c := range b.Bal {
		if addr == world.DistrAddr {
			continue
		}
		for d, v := range c {
			if a.BalOf(addr, d).Cmp(v) != 0 {
				return fmt.Sprintf("%s %s: %s vs %s", world.NameOf(addr), d, a.BalOf(addr, d), v)
			}
		}
	}
	// the distribution account: compare the tracked non-stake denominations only
	for _, d := range world.TrackedDenoms {
		if a.BalOf(world.DistrAddr, d).Cmp(b.BalOf(world.DistrAddr, d)) != 0 {
			return fmt.Sprintf("distr %s: %s vs %s", d, a.BalOf(world.DistrAddr, d), b.BalOf(world.DistrAddr, d))
		}
	}
	return ""
}

// ConformanceOpts selects which explored histories are replayed.
type conformance struct {
	Validated int
	Blocks    int
	Txs       int
	Failures  []Violation
}

// RunConformance replays all given histories (every one of them, not a sample) in parallel.
func RunConformance(prop string, sc *Scenario, hists [][]Op, workers int) conformance {
	var mu sync.Mutex
	var out conformance
	ch := make(chan []Op, len(hists))
	for _, h := range hists {
		ch <- h
	}
	close(ch)
	var wg sync.WaitGroup
	for w := 0; w < workers; w++ {
		wg.Add(1)
		go func() {
			defer wg.Done()
			for h := range ch {
				full := append(append([]Op{}, sc.Preamble...), h...)
				skip := false
				for _, op := range full {
					if isTxKind(op.Kind) {
						if _, ok := world.Actors[signerOf(op)]; !ok {
							skip = true
						}
					}
				}
				if skip {
					continue
				}
				r := ReplayABCI(sc.Cfg, full)
				mu.Lock()
				if r.Err != "" {
					if len(out.Failures) < 3 {
						out.Failures = append(out.Failures, Violation{Prop: prop, Sig: "pipeline-conformance", Scen: sc.Name, Hist: full,
							Detail: "the emulated transaction/block boundary disagrees with the real ABCI pipeline (signed transactions through FinalizeBlock/Commit): " + r.Err})
					}
				} else {
					out.Validated++
					out.Blocks += r.Blocks
					out.Txs += r.Txs
				}
				mu.Unlock()
			}
		}()
	}
	wg.Wait()
	return out
}

var _ = ftypes.ModuleName

// conformanceScenarios are the small closed systems whose maximal histories are ALL replayed through
// the ABCI pipeline (they share ops, timeline and value alphabets with the explored scenarios).
func conformanceScenarios(tier string) []*Scenario {
	lite := Budget{"create": 1, "allow": 1, "update": 0, "bid": 1, "mod": 1, "cancel": 1, "block": 2, "tick": 0}
	out := []*Scenario{
		S1a("quick", true).withBudget(lite, "-abci"),
		S2a("quick", false).withBudget(lite, "-abci"),
		S3("quick", true).withBudget(Budget{"create": 0, "allow": 0, "update": 0, "bid": 1, "mod": 0, "cancel": 0, "block": 2}, "-abci"),
	}
	if tier == "thorough" {
		mid := Budget{"create": 1, "allow": 1, "update": 1, "bid": 2, "mod": 1, "cancel": 1, "block": 3, "tick": 0}
		out = []*Scenario{
			S1a("quick", true).withBudget(mid, "-abci"),
			S2a("quick", false).withBudget(mid, "-abci"),
			S3("quick", true).withBudget(Budget{"create": 1, "allow": 0, "update": 1, "bid": 2, "mod": 1, "cancel": 1, "block": 3}, "-abci"),
		}
	}
	return out
}

// injectRejects returns h with, before every op, one transaction of the scenario's menu that the
// emulation rejects in that state (when there is one signed by a known actor). Rejected ops leave the
// state unchanged, so the result is still a history of the scenario; replaying it through the real
// pipeline checks that a really signed failing transaction is refused by the node as well and leaves
// the store and balances as the emulation says (C18's "unchanged at the transaction boundary").
func injectRejects(w *world.World, sc *Scenario, h []Op) ([]Op, int) {
	n, _, err := replayOps(w, sc, sc.Preamble, nil)
	if err != nil {
		return h, 0
	}
	var out []Op
	injected := 0
	bud := Budget{}
	for k := range sc.Budget {
		bud[k] = 9
	}
	for _, op := range h {
		for _, cand := range sc.Menu(n.st, bud) {
			if !isTxKind(cand.Kind) || cand.Kind == "update_params" {
				continue
			}
			if _, ok := world.Actors[signerOf(cand)]; !ok {
				continue
			}
			cctx, _ := n.ctx.CacheContext()
			_, r := cand.Apply(w, cctx.WithEventManager(sdk.NewEventManager()))
			if !r.OK() {
				cand.Budget = ""
				out = append(out, cand)
				injected++
				break
			}
		}
		out = append(out, op)
		cctx, _ := n.ctx.CacheContext()
		pctx, _ := op.Apply(w, cctx.WithEventManager(sdk.NewEventManager()))
		st, err := w.Snapshot(pctx)
		if err != nil {
			return h, 0
		}
		n = &node{ctx: pctx, st: st}
	}
	return out, injected
}

// Conformance explores the conformance scenarios (no monitors), and replays every maximal history.
func Conformance(prop, tier string, workers int, maxHist int) (conformance, []map[string]any, error) {
	var total conformance
	var per []map[string]any
	rejectsInjected := 0
	for _, sc := range conformanceScenarios(tier) {
		rr, err := Run(sc, RunOpts{Workers: workers, NewMonitors: func() []Monitor { return nil }, PrefixDepth: 2, TermsCap: 1 << 20})
		if err != nil {
			return total, nil, err
		}
		hs := rr.Terminals
		capped := false
		if maxHist > 0 && len(hs) > maxHist {
			hs = hs[:maxHist]
			capped = true
		}
		// every second history also carries really signed transactions that must fail
		if wr, err := world.New(sc.Cfg); err == nil {
			for i := range hs {
				if i%2 == 1 {
					h2, k := injectRejects(wr, sc, hs[i])
					hs[i] = h2
					rejectsInjected += k
				}
			}
		}
		c := RunConformance(prop, sc, hs, workers)
		total.Validated += c.Validated
		total.Blocks += c.Blocks
		total.Txs += c.Txs
		total.Failures = append(total.Failures, c.Failures...)
		per = append(per, map[string]any{"scenario": sc.Name, "maximal_histories": len(rr.Terminals), "replayed": len(hs), "capped": capped, "conform": c.Validated, "blocks": c.Blocks, "signed_txs": c.Txs, "failing_signed_txs_injected_so_far": rejectsInjected})
	}
	return total, per, nil
}
