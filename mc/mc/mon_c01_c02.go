package mc

import (
	"fmt"
	"math/big"
	"sort"

	"verif/mc/ref"
	"verif/mc/world"
)

// -------------------------------------------------------------------------------------------
// C01 — escrows hold exactly what the records owe.
//
// Transition-local form: excess(state, escrow, denom) = balance - expected(records).
//  * in every state and for every escrow, excess >= 0 in every denomination;
//  * a donation raises the excess of exactly the target escrow by exactly the donated coins;
//  * every other op never raises any excess, and in a history without donations every excess is 0
//    (the initial state has excess 0, so by induction the balance equals the records exactly).
// -------------------------------------------------------------------------------------------

type monC01 struct{ st *Stats }

func NewC01() Monitor           { return &monC01{st: NewStats()} }
func (m *monC01) Prop() string  { return "C01" }
func (m *monC01) Stats() *Stats { return m.st }

// excess returns balance - expected for the three escrows of every auction id < NextAuctionID
// (and the not-yet-used next id, whose expectation is zero).
func escrowExcess(s *ref.State) map[string]ref.Coins {
	out := map[string]ref.Coins{}
	put := func(addr string, denom string, exp *big.Int) {
		c := ref.Coins{}
		for d, v := range s.Bal[addr] {
			c[d] = new(big.Int).Set(v)
		}
		c[denom] = ref.Sub(c.Get(denom), exp)
		out[addr] = c
	}
	for id := uint64(0); id <= s.NextAuctionID; id++ {
		sa, pa, va := world.EscrowAddrs(id)
		a := s.Auction(id)
		if a == nil {
			put(sa, "-", new(big.Int))
			put(pa, "-", new(big.Int))
			put(va, "-", new(big.Int))
			continue
		}
		es, ep, ev := ref.ExpectedEscrows(s, a)
		put(sa, a.SellDenom, es)
		put(pa, a.PayDenom, ep)
		put(va, a.PayDenom, ev)
	}
	return out
}

func (m *monC01) OnTransition(t *Transition) []Violation {
	var vs []Violation
	pre := escrowExcess(t.Pre)
	post := escrowExcess(t.Post)
	for addr, c := range post {
		for d, v := range c {
			if d == "-" {
				continue
			}
			p := new(big.Int)
			if pc, ok := pre[addr]; ok {
				p = pc.Get(d)
			}
			name := world.NameOf(addr)
			if v.Sign() < 0 {
				vs = append(vs, Violation{Prop: "C01", Sig: "escrow-short/" + escrowRole(name) + "/" + t.Op.Kind,
					Detail: fmt.Sprintf("%s holds %s%s less than the records owe after %v", name, new(big.Int).Neg(v), d, t.Op)})
				continue
			}
			want := new(big.Int).Set(p)
			if t.Op.Kind == "donate" && t.Res.OK() {
				sa, pa, va := world.EscrowAddrs(t.Op.AID)
				tgt := map[string]string{"sell": sa, "pay": pa, "vest": va}[t.Op.To]
				if tgt == addr {
					dc := parseCoinLoose(t.Op.Coin)
					if dc.Denom == d {
						want.Add(want, dc.Amount.BigInt())
					}
				}
				if v.Cmp(want) != 0 {
					vs = append(vs, Violation{Prop: "C01", Sig: "excess-after-donation/" + escrowRole(name),
						Detail: fmt.Sprintf("%s excess %s%s, want %s after %v", name, v, d, want, t.Op)})
				}
				continue
			}
			if v.Cmp(want) > 0 {
				vs = append(vs, Violation{Prop: "C01", Sig: "escrow-excess/" + escrowRole(name) + "/" + t.Op.Kind,
					Detail: fmt.Sprintf("%s holds %s%s more than the records owe (was %s) after %v", name, v, d, p, t.Op)})
			}
		}
	}
	// coverage: a state is non-trivial for C01 when some escrow expectation is non-zero
	nz := 0
	for _, a := range t.Post.Auctions {
		es, ep, ev := ref.ExpectedEscrows(t.Post, a)
		if es.Sign() > 0 {
			nz++
		}
		if ep.Sign() > 0 {
			nz++
			m.st.Inc("states_with_paying_reservations")
		}
		if ev.Sign() > 0 {
			nz++
			m.st.Inc("states_with_unreleased_instalments")
		}
	}
	m.st.Inc("state_checks")
	if nz > 0 {
		m.st.Inc("nontrivial_state_checks")
		m.st.Case("state", t.Post.RawModule)
	}
	if t.Res.OK() && (t.Op.Kind == "block" || t.Op.Kind == "tick") && t.Pre.RawModule != t.Post.RawModule {
		m.st.Sample(map[string]any{"history": opsStr(t.History()), "escrows": escrowSummary(t.Post)})
	}
	return vs
}

func escrowRole(name string) string {
	for i, c := range name {
		if c == '#' {
			return name[:i]
		}
	}
	return name
}

func escrowSummary(s *ref.State) map[string]string {
	out := map[string]string{}
	for _, a := range s.Auctions {
		out[fmt.Sprintf("a%d:%s", a.ID, ref.StatusName(a.Status))] =
			fmt.Sprintf("sell=%s pay=%s vest=%s", s.Bal[a.SellAddr], s.Bal[a.PayAddr], s.Bal[a.VestAddr])
	}
	return out
}

func opsStr(ops []Op) []string {
	out := make([]string, len(ops))
	for i, o := range ops {
		out[i] = o.String()
	}
	return out
}

// -------------------------------------------------------------------------------------------
// C02 — zero-sum; only fee + reservation leave a user; everyone ends with their due.
// Per-transition obligations (their conjunction over a history gives the end-to-end statement):
//  (i)   sum of tracked balance deltas is zero per denom, total supply unchanged, and the deltas
//        equal the net of the bank transfers the op emitted (nothing moved off the books);
//  (ii)  message ops: signer pays exactly fee + reservation increase; only the target escrow and the
//        community pool receive; a rejected op changes nothing;
//  (iii) block ops: every balance change is explained auction by auction by that auction's own
//        lifecycle step (opening moves nothing; settlement pays allocations / refunds / unsold /
//        proceeds exactly; instalments exactly; terminal auctions move nothing and hold nothing).
// -------------------------------------------------------------------------------------------

type monC02 struct{ st *Stats }

func NewC02() Monitor           { return &monC02{st: NewStats()} }
func (m *monC02) Prop() string  { return "C02" }
func (m *monC02) Stats() *Stats { return m.st }

func coinsEq(a, b ref.Coins) bool {
	for d, v := range a {
		if v.Cmp(b.Get(d)) != 0 {
			return false
		}
	}
	for d, v := range b {
		if v.Cmp(a.Get(d)) != 0 {
			return false
		}
	}
	return true
}

func fmtDeltas(d map[string]ref.Coins) string {
	var ks []string
	for k := range d {
		ks = append(ks, k)
	}
	sort.Strings(ks)
	s := ""
	for _, k := range ks {
		var ds []string
		for dn := range d[k] {
			ds = append(ds, dn)
		}
		sort.Strings(ds)
		for _, dn := range ds {
			if d[k][dn].Sign() != 0 {
				s += fmt.Sprintf("%s:%s%s ", world.NameOf(k), d[k][dn], dn)
			}
		}
	}
	return s
}

type expect struct{ m map[string]ref.Coins }

func newExpect() *expect { return &expect{m: map[string]ref.Coins{}} }
func (e *expect) add(addr, denom string, v *big.Int) {
	if v.Sign() == 0 {
		return
	}
	if _, ok := e.m[addr]; !ok {
		e.m[addr] = ref.Coins{}
	}
	e.m[addr][denom] = ref.Add(e.m[addr].Get(denom), v)
}
func (e *expect) move(from, to, denom string, v *big.Int) {
	e.add(from, denom, new(big.Int).Neg(v))
	e.add(to, denom, v)
}
func (e *expect) moveCoins(from, to string, c ref.Coins) {
	for d, v := range c {
		e.move(from, to, d, v)
	}
}

func deltasEq(a, b map[string]ref.Coins) bool {
	for k, v := range a {
		if !coinsEq(v, b[k]) {
			return false
		}
	}
	for k, v := range b {
		if !coinsEq(v, a[k]) {
			return false
		}
	}
	return true
}

func (m *monC02) OnTransition(t *Transition) []Violation {
	var vs []Violation
	bad := func(sig, f string, a ...any) {
		vs = append(vs, Violation{Prop: "C02", Sig: sig, Detail: fmt.Sprintf(f, a...)})
	}
	d := Deltas(t.Pre, t.Post)
	// (i) zero-sum, supply, transfers
	sum := ref.Coins{}
	for _, c := range d {
		for dn, v := range c {
			sum[dn] = ref.Add(sum.Get(dn), v)
		}
	}
	for dn, v := range sum {
		if v.Sign() != 0 {
			bad("not-zero-sum/"+t.Op.Kind, "tracked balances change by %s%s in total after %v: %s", v, dn, t.Op, fmtDeltas(d))
		}
	}
	if !coinsEq(t.Pre.Supply, t.Post.Supply) {
		bad("supply-changed/"+t.Op.Kind, "supply %s -> %s after %v", t.Pre.Supply, t.Post.Supply, t.Op)
	}
	trs := Transfers(t.Res.Events)
	if t.Res.OK() || t.Op.Kind == "block" || t.Op.Kind == "tick" {
		net := NetOfTransfers(trs)
		for a, c := range net { // drop stake-only / zero entries
			for dn, v := range c {
				if v.Sign() == 0 || dn == "stake" {
					delete(c, dn)
				}
			}
			if len(c) == 0 {
				delete(net, a)
			}
		}
		if t.Op.Kind != "donate" && !deltasEq(net, d) {
			bad("deltas-differ-from-transfers/"+t.Op.Kind, "balance deltas {%s} differ from emitted transfers {%s} after %v", fmtDeltas(d), fmtDeltas(net), t.Op)
		}
	}
	// community pool bookkeeping follows the distribution account
	for dn := range unionDenoms(t.Pre.CommunityPool, t.Post.CommunityPool) {
		pv, qv := ratOr0(t.Pre.CommunityPool[dn]), ratOr0(t.Post.CommunityPool[dn])
		dd := new(big.Rat).Sub(qv, pv)
		bd := new(big.Rat).SetInt(ref.Sub(t.Post.BalOf(world.DistrAddr, dn), t.Pre.BalOf(world.DistrAddr, dn)))
		if dd.Cmp(bd) != 0 {
			bad("community-pool-mismatch/"+t.Op.Kind, "community pool %s changes by %s but the distribution account by %s", dn, dd.FloatString(2), bd.FloatString(0))
		}
	}

	exp := newExpect()
	if !t.Res.OK() && t.Op.Kind != "block" && t.Op.Kind != "tick" {
		// rejected op: nothing may move
		if len(d) != 0 {
			bad("rejected-op-moved-coins/"+t.Op.Kind, "rejected %v (%s) moved %s", t.Op, t.Res.ErrStr, fmtDeltas(d))
		}
		m.st.Inc("rejected_ops_checked")
		return vs
	}
	switch t.Op.Kind {
	case "create_fixed", "create_batch":
		signer := addrOf(t.Op.Signer)
		exp.moveCoins(signer, world.DistrAddr, t.Pre.CreationFee)
		id := t.Pre.NextAuctionID
		sa, _, _ := world.EscrowAddrs(id)
		c := parseCoinLoose(t.Op.Sell)
		exp.move(signer, sa, c.Denom, c.Amount.BigInt())
		m.st.Inc("creations")
		if len(t.Pre.CreationFee) > 0 {
			m.st.Inc("creations_with_fee")
		}
	case "place":
		signer := addrOf(t.Op.Signer)
		a := t.Pre.Auction(t.Op.AID)
		exp.moveCoins(signer, world.DistrAddr, t.Pre.BidFee)
		nb := &ref.Bid{Type: t.Op.BidType, Price: ref.R(t.Op.Price), Denom: t.Op.Denom, Amt: big0(t.Op.Amt)}
		exp.move(signer, a.PayAddr, a.PayDenom, ref.RequiredReservation(nb, a.PayDenom))
		m.st.Inc("bids")
		m.st.Case("bid", fmt.Sprintf("%d|%s|%s|%s|%s", t.Op.BidType, t.Op.Price, t.Op.Denom, t.Op.Amt, t.Pre.BidFee))
	case "modify":
		signer := addrOf(t.Op.Signer)
		a := t.Pre.Auction(t.Op.AID)
		old := t.Pre.Bid(t.Op.AID, t.Op.BidID)
		nb := &ref.Bid{Type: old.Type, Price: ref.R(t.Op.Price), Denom: t.Op.Denom, Amt: big0(t.Op.Amt)}
		diff := ref.Sub(ref.RequiredReservation(nb, a.PayDenom), ref.RequiredReservation(old, a.PayDenom))
		exp.move(signer, a.PayAddr, a.PayDenom, diff)
		m.st.Inc("modifications")
		m.st.Case("mod", fmt.Sprintf("%d|%s->%s|%s->%s", old.Type, ratStr(old.Price), t.Op.Price, old.Amt, t.Op.Amt))
	case "cancel":
		a := t.Pre.Auction(t.Op.AID)
		// the whole selling-denom balance of the escrow goes back (offered amount + anything donated, I2)
		exp.move(a.SellAddr, a.Auctioneer, a.SellDenom, t.Pre.BalOf(a.SellAddr, a.SellDenom))
		m.st.Inc("cancellations")
	case "donate":
		c := parseCoinLoose(t.Op.Coin)
		sa, pa, va := world.EscrowAddrs(t.Op.AID)
		tgt := map[string]string{"sell": sa, "pay": pa, "vest": va}[t.Op.To]
		exp.move(addrOf(t.Op.Signer), tgt, c.Denom, c.Amount.BigInt())
	case "add_allowed", "update_allowed", "msg_add_allowed", "update_params":
		// nothing moves
	case "block", "tick":
		vs = append(vs, m.blockExpect(t, exp, trs)...)
	}
	if !deltasEq(exp.m, d) {
		bad("unexpected-balance-change/"+t.Op.Kind, "after %v balances moved {%s} but the op's due is {%s}", t.Op, fmtDeltas(d), fmtDeltas(exp.m))
	}
	// end state: once an auction is finished or cancelled nothing is left in its escrows (in scenarios
	// with donations the donated coins may stay; C01's excess rule accounts for them)
	if t.Scen.al == nil || len(t.Scen.al.Donate) == 0 {
		for _, a := range t.Post.Auctions {
			if a.Status != ref.StatusFinished && a.Status != ref.StatusCancelled {
				continue
			}
			for role, x := range map[string][2]string{"sell": {a.SellAddr, a.SellDenom}, "pay": {a.PayAddr, a.PayDenom}, "vest": {a.VestAddr, a.PayDenom}} {
				if bal := t.Post.BalOf(x[0], x[1]); bal.Sign() != 0 {
					bad("stranded-in-escrow/"+role+"/"+ref.StatusName(a.Status), "auction %d is %s but %s%s is left in its %s escrow (after %v)", a.ID, ref.StatusName(a.Status), bal, x[1], role, t.Op)
				}
			}
			m.st.Inc("terminal_auction_escrow_checks")
		}
	}
	return vs
}

func unionDenoms(a, b map[string]*big.Rat) map[string]bool {
	o := map[string]bool{}
	for k := range a {
		o[k] = true
	}
	for k := range b {
		o[k] = true
	}
	return o
}

func ratOr0(r *big.Rat) *big.Rat {
	if r == nil {
		return new(big.Rat)
	}
	return r
}

// blockExpect fills exp with what each auction's lifecycle step must move in this block.
func (m *monC02) blockExpect(t *Transition, exp *expect, trs []Transfer) []Violation {
	var vs []Violation
	bad := func(sig, f string, a ...any) {
		vs = append(vs, Violation{Prop: "C02", Sig: sig, Detail: fmt.Sprintf(f, a...)})
	}
	now := t.Post.Time
	for _, a := range t.Pre.Auctions {
		step := ref.StepOf(t.Pre, a, now)
		switch step.Kind {
		case ref.StepSettle:
			bids := t.Pre.Bids[a.ID]
			alloc := map[string]*big.Int{}
			reserved := map[string]*big.Int{}
			for _, b := range bids {
				if _, ok := reserved[b.Bidder]; !ok {
					reserved[b.Bidder] = new(big.Int)
					alloc[b.Bidder] = new(big.Int)
				}
				reserved[b.Bidder].Add(reserved[b.Bidder], ref.RequiredReservation(b, a.PayDenom))
			}
			totalAlloc := new(big.Int)
			totalPaid := new(big.Int)
			branch := "fixed"
			if a.Type == ref.TypeFixed {
				for _, b := range bids {
					alloc[b.Bidder].Add(alloc[b.Bidder], ref.SellingAmount(b, a.PayDenom))
				}
				for _, r := range reserved {
					totalPaid.Add(totalPaid, r) // a fixed-price bid pays its whole reservation
				}
			} else {
				branch = "batch-rate"
				if uint32(len(a.EndTimes)) == a.MaxExt+1 {
					branch = "batch-last-round"
				}
				// what each bidder was delivered is read off the transfers (whether it is the right
				// amount is C03's business; here every delivered coin must be accounted for)
				for k, v := range sellingReceipts(trs, a) {
					if _, ok := reserved[k]; !ok {
						bad("delivery-to-stranger/"+branch, "selling escrow of auction %d delivers %s to %s who has no bid", a.ID, v, world.NameOf(k))
						continue
					}
					alloc[k] = v
				}
				// refunds are read off the transfers paying-escrow -> bidder (the exact payment is
				// bounded by C04; here: 0 <= refund <= reserved, losers get everything back)
				refund := map[string]*big.Int{}
				for to, v := range payingRefunds(trs, a) {
					if _, ok := reserved[to]; !ok {
						bad("refund-to-stranger/"+branch, "paying escrow of auction %d paid %s to %s who has no bid", a.ID, v, world.NameOf(to))
						continue
					}
					refund[to] = v
				}
				for b, r := range reserved {
					rf := refund[b]
					if rf == nil {
						rf = new(big.Int)
					}
					if rf.Cmp(r) > 0 {
						bad("refund-exceeds-reservation/"+branch, "auction %d refunds %s to %s who reserved %s", a.ID, rf, world.NameOf(b), r)
					}
					if alloc[b].Sign() == 0 && rf.Cmp(r) != 0 {
						bad("loser-not-fully-refunded/"+branch, "auction %d: %s wins nothing, reserved %s, refunded %s", a.ID, world.NameOf(b), r, rf)
					}
					exp.move(a.PayAddr, b, a.PayDenom, rf)
					totalPaid.Add(totalPaid, ref.Sub(r, rf))
				}
			}
			for b, q := range alloc {
				exp.move(a.SellAddr, b, a.SellDenom, q)
				totalAlloc.Add(totalAlloc, q)
			}
			// unsold coins (and anything else in the selling escrow in that denom, I2) to the auctioneer
			exp.move(a.SellAddr, a.Auctioneer, a.SellDenom, ref.Sub(t.Pre.BalOf(a.SellAddr, a.SellDenom), totalAlloc))
			left := new(big.Int).Set(t.Pre.BalOf(a.PayAddr, a.PayDenom))
			// left after refunds
			if a.Type == ref.TypeBatch {
				out := new(big.Int)
				if c, ok := exp.m[a.PayAddr]; ok {
					out = new(big.Int).Neg(c.Get(a.PayDenom))
				}
				left.Sub(left, out)
			}
			if len(a.Schedules) == 0 {
				exp.move(a.PayAddr, a.Auctioneer, a.PayDenom, left)
			} else {
				exp.move(a.PayAddr, a.VestAddr, a.PayDenom, left)
			}
			m.st.Inc("settlements")
			m.st.Inc("settlements/" + branch)
			winners, refunds := 0, 0
			for b := range reserved {
				if alloc[b].Sign() > 0 {
					winners++
				}
			}
			refunds = len(payingRefunds(trs, a))
			if winners > 0 && refunds > 0 {
				m.st.Inc("settlements_with_winner_and_refund")
			}
			if winners > 0 {
				m.st.Case("settlement/"+branch, t.Pre.RawModule+fmt.Sprint(a.ID))
				m.st.Sample(map[string]any{"history": opsStr(t.History()), "auction": a.ID, "branch": branch, "deltas": fmtDeltas(Deltas(t.Pre, t.Post))})
			}
		case ref.StepRelease:
			for _, i := range step.Due {
				q := t.Pre.VQs[a.ID][i]
				exp.move(a.VestAddr, a.Auctioneer, q.Denom, q.Amt)
			}
			m.st.Inc("instalment_blocks")
			m.st.Case("release", t.Pre.RawModule+fmt.Sprint(a.ID, step.Due))
		}
	}
	return vs
}
