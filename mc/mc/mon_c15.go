package mc

import (
	"fmt"
	"sort"
	"strings"

	sdk "github.com/cosmos/cosmos-sdk/types"

	fmodule "github.com/tendermint/fundraising/x/fundraising/module"
	ftypes "github.com/tendermint/fundraising/x/fundraising/types"

	"verif/mc/ref"
	"verif/mc/world"
)

// -------------------------------------------------------------------------------------------
// C15 — exported genesis validates, re-imports to the same state and behaves the same.
// At every distinct module state reached: export -> JSON round-trip -> Validate -> wipe the module
// store on a branch -> InitGenesis -> compare the seven collections the statement names -> continue
// original and re-imported branch in lock-step.
// -------------------------------------------------------------------------------------------

type monC15 struct {
	st   *Stats
	seen map[string]bool
	deep bool
}

func NewC15(deep bool) Monitor  { return &monC15{st: NewStats(), seen: map[string]bool{}, deep: deep} }
func (m *monC15) Prop() string  { return "C15" }
func (m *monC15) Stats() *Stats { return m.st }

// sevenCollections renders the state the statement enumerates: auctions, bids, allow-lists,
// instalments, counters and parameters (I7) — not the last matched count, which is judged through
// "evolves identically".
func sevenCollections(s *ref.State) map[string]string {
	out := map[string]string{}
	var sb strings.Builder
	for _, a := range s.Auctions {
		sb.WriteString(a.Raw + "|")
	}
	out["auctions"] = sb.String()
	ids := func(m map[uint64]struct{}) []uint64 {
		var o []uint64
		for k := range m {
			o = append(o, k)
		}
		sort.Slice(o, func(i, j int) bool { return o[i] < o[j] })
		return o
	}
	keys := map[uint64]struct{}{}
	for k := range s.Bids {
		keys[k] = struct{}{}
	}
	for k := range s.Allowed {
		keys[k] = struct{}{}
	}
	for k := range s.VQs {
		keys[k] = struct{}{}
	}
	for k := range s.BidSeq {
		keys[k] = struct{}{}
	}
	var bb, ab, vb, qb strings.Builder
	for _, id := range ids(keys) {
		for _, b := range s.Bids[id] {
			bb.WriteString(fmt.Sprintf("%d/%d:%s|", b.AID, b.ID, b.Raw))
		}
		for _, a := range s.Allowed[id] {
			ab.WriteString(fmt.Sprintf("%d/%s:%s|", id, a.Bidder, a.Raw))
		}
		for _, q := range s.VQs[id] {
			vb.WriteString(fmt.Sprintf("%d/%s:%s|", id, q.Release.UTC(), q.Raw))
		}
		if v, ok := s.BidSeq[id]; ok {
			qb.WriteString(fmt.Sprintf("%d=%d|", id, v))
		}
	}
	out["bids"] = bb.String()
	out["allowed_bidders"] = ab.String()
	out["vesting_queues"] = vb.String()
	out["bid_counters"] = qb.String()
	out["auction_counter"] = fmt.Sprint(s.NextAuctionID)
	out["params"] = fmt.Sprintf("%s/%s/%d", s.CreationFee, s.BidFee, s.ExtPeriod)
	return out
}

func diffCollections(a, b map[string]string) []string {
	var d []string
	for k, v := range a {
		if b[k] != v {
			d = append(d, k)
		}
	}
	sort.Strings(d)
	return d
}

func balanceDigest(s *ref.State) string {
	var ks []string
	for a, c := range s.Bal {
		if cs := c.String(); cs != "" {
			ks = append(ks, world.NameOf(a)+"="+cs)
		}
	}
	sort.Strings(ks)
	return strings.Join(ks, ";")
}

func wipeModuleStore(w *world.World, ctx sdk.Context) {
	st := ctx.KVStore(w.App.GetKey(ftypes.StoreKey))
	for _, kv := range w.RawDump(ctx) {
		st.Delete(kv[0])
	}
}

func stateClass(s *ref.State) string {
	c := ""
	for _, a := range s.Auctions {
		ml := ""
		if v, ok := s.MatchedLen[a.ID]; ok {
			ml = fmt.Sprintf("ml%d", v)
		}
		c += fmt.Sprintf("t%d:%s:r%d:b%d:l%d:q%d:%s/", a.Type, ref.StatusName(a.Status), len(a.EndTimes), len(s.Bids[a.ID]), len(s.Allowed[a.ID]), len(s.VQs[a.ID]), ml)
	}
	return c
}

func (m *monC15) OnTransition(t *Transition) []Violation {
	if !(t.Res.OK() || isBlock(t.Op)) || m.seen[t.Post.RawModule] {
		return nil
	}
	m.seen[t.Post.RawModule] = true
	var vs []Violation
	bad := func(sig, f string, a ...any) {
		vs = append(vs, Violation{Prop: "C15", Sig: sig, Detail: fmt.Sprintf(f, a...)})
	}
	w := t.W
	cdc := w.App.AppCodec()
	cls := stateClass(t.Post)
	m.st.Inc("states_exported")
	m.st.Case("state", t.Post.RawModule)
	m.st.Case("state-class", cls)

	// (i) export -> JSON -> Validate
	ectx, _ := t.PostCtx.CacheContext()
	gs, err := fmodule.ExportGenesis(ectx, w.K)
	if err != nil {
		bad("export-error", "ExportGenesis fails in state [%s]: %v", cls, err)
		return vs
	}
	bz, err := cdc.MarshalJSON(gs)
	if err != nil {
		bad("export-json-error", "exported genesis cannot be rendered as JSON in state [%s]: %v", cls, err)
		return vs
	}
	var gs2 ftypes.GenesisState
	if err := cdc.UnmarshalJSON(bz, &gs2); err != nil {
		bad("export-json-roundtrip", "exported genesis JSON cannot be read back in state [%s]: %v", cls, err)
		return vs
	}
	if err := gs2.Validate(); err != nil {
		bad("validate/"+reDigits.ReplaceAllString(firstLine(err.Error()), "N"), "exported genesis of state [%s] fails the module's own validation: %v", cls, err)
	}
	// (ii) import into the wiped store
	ictx, _ := t.PostCtx.CacheContext()
	wipeModuleStore(w, ictx)
	var ierr error
	func() {
		defer func() {
			if r := recover(); r != nil {
				ierr = fmt.Errorf("panic: %v", r)
			}
		}()
		ierr = fmodule.InitGenesis(ictx, w.K, gs2)
	}()
	if ierr != nil {
		bad("import-error", "InitGenesis of the exported genesis of state [%s] fails: %v", cls, ierr)
		return vs
	}
	imp, err := w.Snapshot(ictx)
	if err != nil {
		bad("import-unreadable", "state after InitGenesis cannot be decoded: %v", err)
		return vs
	}
	if d := diffCollections(sevenCollections(t.Post), sevenCollections(imp)); len(d) > 0 {
		bad("import-differs/"+strings.Join(d, "+"), "after re-import of state [%s] these collections differ from the original: %v", cls, d)
		return vs
	}
	if len(t.Post.Auctions) > 0 {
		m.st.Inc("nontrivial_roundtrips")
	}
	// (iii) lock-step continuation
	menu := t.Scen.Menu(t.Post, Budget{"bid": 1, "mod": 1, "allow": 1, "update": 1, "cancel": 1, "create": 1, "block": 9, "tick": 1, "probe": 0})
	var seqs [][]Op
	var blocks []Op
	var firstBid *Op
	for i, op := range menu {
		if op.Kind == "msg_add_allowed" || op.Tag != "" {
			continue
		}
		seqs = append(seqs, []Op{op})
		if op.Kind == "block" {
			blocks = append(blocks, op)
		}
		if op.Kind == "place" && firstBid == nil {
			firstBid = &menu[i]
		}
	}
	for i, b1 := range blocks {
		for _, b2 := range blocks[i+1:] {
			seqs = append(seqs, []Op{b1, b2})
			if m.deep {
				for _, b3 := range blocks {
					if b3.K > b2.K {
						seqs = append(seqs, []Op{b1, b2, b3})
					}
				}
			}
		}
		if firstBid != nil {
			seqs = append(seqs, []Op{*firstBid, b1})
		}
	}
	if m.deep {
		for _, op := range menu {
			if op.Kind == "block" || op.Kind == "tick" || op.Tag != "" || op.Kind == "msg_add_allowed" {
				continue
			}
			for _, b := range blocks {
				seqs = append(seqs, []Op{op, b})
			}
		}
	}
	for _, seq := range seqs {
		a, _ := t.PostCtx.CacheContext()
		b, _ := ictx.CacheContext()
		for i, op := range seq {
			ca, _ := a.CacheContext()
			cb, _ := b.CacheContext()
			ca = ca.WithEventManager(sdk.NewEventManager())
			cb = cb.WithEventManager(sdk.NewEventManager())
			pa, ra := op.Apply(w, ca)
			pb, rb := op.Apply(w, cb)
			m.st.Inc("lockstep_ops")
			sa, err1 := w.Snapshot(pa)
			sb, err2 := w.Snapshot(pb)
			if err1 != nil || err2 != nil {
				bad("lockstep-unreadable", "state unreadable during continuation: %v %v", err1, err2)
				break
			}
			what := ""
			if ra.OK() != rb.OK() {
				what = fmt.Sprintf("decision differs: original %s, re-imported %s", okStr(&ra), okStr(&rb))
			} else if d := diffCollections(sevenCollections(sa), sevenCollections(sb)); len(d) > 0 {
				what = fmt.Sprintf("collections %v differ", d)
			} else if balanceDigest(sa) != balanceDigest(sb) {
				what = "balances differ"
			}
			if what != "" {
				sig := "evolves-differently/" + op.Kind
				if op.Kind == "block" || op.Kind == "tick" {
					// name the auction situation that diverges
					for _, au := range t.Post.Auctions {
						if au.Type == ref.TypeBatch && au.Status == ref.StatusStarted && len(au.EndTimes) > 1 {
							sig += "/batch-auction-in-extended-round"
							break
						}
					}
				}
				bad(sig, "from state [%s], continuation %v step %d (%v): %s", cls, opsStr(seq), i, op, what)
				break
			}
			a, b = pa, pb
		}
		m.st.Inc("lockstep_sequences")
	}
	m.st.Sample(map[string]any{"history": opsStr(t.History()), "state_class": cls, "continuations": len(seqs)})
	return vs
}

func okStr(r *Result) string {
	if r.OK() {
		return "accepted"
	}
	return "rejected(" + classifyErr(r.ErrStr) + ")"
}

// c15GenesisParams is the Post step of the C15 plan. The harness boots its chains through the very
// InitGenesis under test, so a defect that rewrites a value *on import* could hide behind the
// exploration (the explored states would simply never hold that value). Here a chain is booted from
// genesis files carrying each boundary value of the module parameters and the stored parameters must be
// the ones the file carries.
func c15GenesisParams(p *Plan, o ExecOpts, rs []*RunResult, ev *Evidence) ([]Violation, error) {
	var vs []Violation
	n := 0
	for _, c := range []struct {
		creation, bid string
		period        uint32
	}{{"", "", 0}, {"", "", 1}, {"2bcoin", "1bcoin", 0}, {"2bcoin", "1bcoin", 3}, {"1acoin,2bcoin", "", 30}} {
		w, err := world.New(world.Config{Balances: stdBalances(), Params: params(c.creation, c.bid, c.period)})
		if err != nil {
			return nil, err
		}
		st, err := w.Snapshot(w.Base())
		if err != nil {
			return nil, err
		}
		n++
		want := fmt.Sprintf("%s/%s/%d", coinsRefStr(c.creation), coinsRefStr(c.bid), c.period)
		got := fmt.Sprintf("%s/%s/%d", st.CreationFee, st.BidFee, st.ExtPeriod)
		if got != want {
			vs = append(vs, Violation{Prop: "C15", Sig: "genesis-params-altered-on-import", Detail: fmt.Sprintf("a genesis file carrying params creation_fee=%q place_bid_fee=%q extended_period=%d is imported as %s", c.creation, c.bid, c.period, got)})
		}
	}
	ev.Coverage["genesis_param_boundary_files_imported"] = n
	return vs, nil
}

func coinsRefStr(s string) string {
	if s == "" {
		return ""
	}
	c := ref.Coins{}
	for _, x := range coins(s) {
		c[x.Denom] = x.Amount.BigInt()
	}
	return c.String()
}
