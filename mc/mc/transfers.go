package mc

import (
	"math/big"
	"strings"

	abci "github.com/cometbft/cometbft/abci/types"
	sdk "github.com/cosmos/cosmos-sdk/types"

	"verif/mc/ref"
)

// Transfer is one bank movement reconstructed from the real bank keeper's coin_spent /
// coin_received events (every SendCoins and every InputOutputCoins emits one coin_spent followed by
// one coin_received per recipient).
type Transfer struct {
	From  string
	To    string
	Coins ref.Coins
}

func attr(e abci.Event, k string) string {
	for _, a := range e.Attributes {
		if a.Key == k {
			return a.Value
		}
	}
	return ""
}

func parseCoinsEvent(s string) ref.Coins {
	out := ref.Coins{}
	if s == "" {
		return out
	}
	cs, err := sdk.ParseCoinsNormalized(s)
	if err != nil {
		// fall back to a loose split (never expected for amounts emitted by the bank keeper)
		for _, p := range strings.Split(s, ",") {
			c := parseCoinLoose(p)
			out[c.Denom] = new(big.Int).Set(c.Amount.BigInt())
		}
		return out
	}
	for _, c := range cs {
		out[c.Denom] = new(big.Int).Set(c.Amount.BigInt())
	}
	return out
}

// Transfers extracts the ordered list of bank movements from an event stream.
func Transfers(evs []abci.Event) []Transfer {
	var out []Transfer
	spender := ""
	for _, e := range evs {
		switch e.Type {
		case "coin_spent":
			spender = attr(e, "spender")
		case "coin_received":
			out = append(out, Transfer{From: spender, To: attr(e, "receiver"), Coins: parseCoinsEvent(attr(e, "amount"))})
		}
	}
	return out
}

// NetOfTransfers sums transfers per account and denom.
func NetOfTransfers(ts []Transfer) map[string]ref.Coins {
	net := map[string]ref.Coins{}
	add := func(a, d string, v *big.Int) {
		if _, ok := net[a]; !ok {
			net[a] = ref.Coins{}
		}
		net[a][d] = ref.Add(net[a].Get(d), v)
	}
	for _, t := range ts {
		for d, v := range t.Coins {
			add(t.From, d, new(big.Int).Neg(v))
			add(t.To, d, v)
		}
	}
	return net
}

// Deltas returns post-pre for every tracked account (union of both snapshots) and denom.
func Deltas(pre, post *ref.State) map[string]ref.Coins {
	out := map[string]ref.Coins{}
	seen := map[string]bool{}
	for a := range pre.Bal {
		seen[a] = true
	}
	for a := range post.Bal {
		seen[a] = true
	}
	for a := range seen {
		d := ref.Coins{}
		den := map[string]bool{}
		for k := range pre.Bal[a] {
			den[k] = true
		}
		for k := range post.Bal[a] {
			den[k] = true
		}
		for k := range den {
			v := ref.Sub(post.BalOf(a, k), pre.BalOf(a, k))
			if v.Sign() != 0 {
				d[k] = v
			}
		}
		if len(d) > 0 {
			out[a] = d
		}
	}
	return out
}
