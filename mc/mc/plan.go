package mc

import (
	"encoding/json"
	"fmt"
	"os"
	"path/filepath"
	"sort"
	"strings"
	"time"

	"verif/mc/world"
)

// Plan says how one property is decided: scenarios, monitors, level, and how coverage is reported.
type Plan struct {
	Prop      string
	Tier      string
	Level     string
	Scenarios []*Scenario
	Monitors  func() []Monitor
	Rule      string
	Assume    []string
	TimeCapS  int
	// NonTrivial names the Stats counters/classes that count as non-trivial for this property.
	PrefixDepth int
	NoABCI      bool
	// Custom, when set, replaces the scenario exploration entirely (C14, C17, C20 …).
	Custom func(p *Plan, o ExecOpts) (*ExecOut, error)
	// Post, when set, runs after exploration with the run results (ABCI conformance etc.).
	Post func(p *Plan, o ExecOpts, rs []*RunResult, ev *Evidence) ([]Violation, error)
}

type ExecOpts struct {
	Workers  int
	Deadline time.Time
	Seed     int
	Root     string
	Tier     string
	// SrcRoot is where mc/ and bin/ live (default: Root); Root is where replays and known findings are read/written.
	SrcRoot string
}

type Evidence struct {
	PropertyID  string         `json:"property_id"`
	Tier        string         `json:"tier"`
	Seed        int            `json:"seed"`
	Level       string         `json:"level"`
	Coverage    map[string]any `json:"coverage"`
	Assumptions []string       `json:"assumptions"`
	WallS       float64        `json:"wall_s"`
	Violations  int            `json:"violations"`
}

type ExecOut struct {
	Evidence      *Evidence
	Lines         []string
	NewViolations int
	KnownHits     int
}

// ---- known findings ----

type Finding struct {
	Property  string `json:"property"`
	Signature string `json:"signature"`
	What      string `json:"what"`
	Status    string `json:"status"` // "known" (recorded, not repaired) | "fixed" (documentation only)
	Commit    string `json:"commit,omitempty"`
}

type FindingsFile struct {
	Findings []Finding `json:"findings"`
}

func LoadFindings(root string) (*FindingsFile, error) {
	bz, err := os.ReadFile(filepath.Join(root, "known_findings.json"))
	if os.IsNotExist(err) {
		return &FindingsFile{}, nil
	}
	if err != nil {
		return nil, err
	}
	var f FindingsFile
	if err := json.Unmarshal(bz, &f); err != nil {
		return nil, err
	}
	return &f, nil
}

func (f *FindingsFile) Known(prop, sig string) *Finding {
	for i := range f.Findings {
		x := &f.Findings[i]
		if x.Status == "known" && x.Property == prop && x.Signature == sig {
			return x
		}
	}
	return nil
}

// ---- execution ----

func Execute(p *Plan, o ExecOpts) (*ExecOut, error) {
	if p.Custom != nil {
		return p.Custom(p, o)
	}
	start := time.Now()
	ev := &Evidence{PropertyID: p.Prop, Tier: p.Tier, Seed: o.Seed, Level: p.Level, Coverage: map[string]any{}, Assumptions: p.Assume}
	var all []*RunResult
	var viol []Violation
	agg := NewStats()
	var states, trans, rejected int64
	exhaustive := true
	perScen := []map[string]any{}
	outcomes := map[string]int64{}
	opKinds := map[string]int64{}
	var samples []any
	n := len(p.Scenarios)
	for i, sc := range p.Scenarios {
		// each scenario gets an equal share of what is left of the wall-clock cap
		// a scenario may use what is left of the wall-clock cap, minus a small reserve for each
		// scenario still to come (so that a large one cannot starve the rest completely)
		remain := time.Until(o.Deadline)
		share := remain - time.Duration(n-i-1)*3*time.Second // keep a little for every later scenario
		if share < remain/time.Duration(n-i) {
			share = remain / time.Duration(n-i)
		}
		dl := time.Now().Add(share)
		if remain <= 0 {
			exhaustive = false
			perScen = append(perScen, map[string]any{"scenario": sc.Name, "skipped": "time cap reached before it started"})
			continue
		}
		rr, err := Run(sc, RunOpts{Workers: o.Workers, Deadline: dl, NewMonitors: p.Monitors, Seed: o.Seed, PrefixDepth: p.PrefixDepth})
		if err != nil {
			return nil, fmt.Errorf("scenario %s: %w", sc.Name, err)
		}
		all = append(all, rr)
		states += rr.States
		trans += rr.Transitions
		rejected += rr.Rejected
		if !rr.Exhaustive {
			exhaustive = false
		}
		for _, v := range rr.Violations {
			if v.Prop == p.Prop {
				viol = append(viol, v)
			} else if strings.HasPrefix(v.Sig, "hang/") {
				return nil, fmt.Errorf("an operation did not return (reported as a violation by the C07 check, not by this one): %s; history %v", v.Detail, opsStr(v.Hist))
			}
		}
		if s, ok := rr.Stats[p.Prop]; ok {
			agg.Merge(s)
		}
		for k, v := range rr.Outcomes {
			outcomes[k] += v
		}
		for k, v := range rr.OpKinds {
			opKinds[k] += v
		}
		perScen = append(perScen, map[string]any{"scenario": sc.Name, "states": rr.States, "transitions": rr.Transitions,
			"rejected_ops": rr.Rejected, "max_depth": rr.MaxDepth, "exhaustive": rr.Exhaustive, "budget": sc.Budget, "wall_s": rr.Wall, "params": sc.Params})
		for _, s := range rr.Samples {
			if len(samples) < 4 {
				samples = append(samples, map[string]any{"scenario": sc.Name, "maximal_history": s})
			}
		}
	}
	for _, s := range agg.Samples {
		samples = append(samples, s)
	}
	if len(samples) == 0 {
		samples = append(samples, "no sample recorded")
	}
	ev.Coverage["states"] = states
	ev.Coverage["transitions"] = trans
	ev.Coverage["rejected_ops_checked"] = rejected
	ev.Coverage["traces_validated_against_impl"] = 0
	ev.Coverage["exhaustive"] = exhaustive
	ev.Coverage["evaluations"] = trans
	ev.Coverage["distinct_nontrivial"] = agg.DistinctTotal()
	ev.Coverage["rule"] = p.Rule
	ev.Coverage["samples"] = samples
	ev.Coverage["scenarios"] = perScen
	ev.Coverage["predicate_hits"] = agg.Counters
	dist := map[string]int{}
	for c, m := range agg.Distinct {
		dist[c] = len(m)
	}
	ev.Coverage["distinct_by_class"] = dist
	ev.Coverage["outcomes"] = outcomes
	ev.Coverage["op_kinds"] = opKinds
	if !exhaustive {
		ev.Coverage["cap"] = fmt.Sprintf("wall-clock cap hit; scenarios marked exhaustive=true completed their whole space, the others report what they covered")
	}

	if p.Level == "model_checking" && !p.NoABCI {
		maxH := 400
		if p.Tier == "thorough" {
			maxH = 3000
		}
		conf, per, err := Conformance(p.Prop, p.Tier, o.Workers, maxH)
		if err != nil {
			return nil, fmt.Errorf("conformance run: %w", err)
		}
		if len(conf.Failures) > 0 && pipelineIsSubject(p.Prop) {
			// C07 and C08 speak about what the NODE does with a block. If FinalizeBlock/Commit disagrees with
			// the module's own block hook driven directly, the hook's good behaviour is not the node's: that
			// is a violation of these two properties, not an internal matter of the harness.
			for _, f := range conf.Failures[:1] {
				f.Sig = pipelineSig
				f.Detail = "the node (InitChain / FinalizeBlock / Commit with signed transactions) does not do what the module's block hook and message handlers do when driven directly: " + f.Detail
				viol = append(viol, f)
			}
			conf.Failures = nil
		}
		if len(conf.Failures) > 0 {
			f := conf.Failures[0]
			return nil, fmt.Errorf("the emulation does not conform to the real ABCI pipeline (this is a defect of the harness, not a verdict on the property): %s\n  history: %v", f.Detail, opsStr(f.Hist))
		}
		ev.Coverage["traces_validated_against_impl"] = conf.Validated
		ev.Coverage["abci_conformance"] = map[string]any{"what": "every maximal history of the small conformance scenarios replayed through InitChain/FinalizeBlock/Commit with really signed transactions; per-tx code, FinalizeBlock error, fundraising store dump and tracked balances compared with the emulation after every block",
			"scenarios": per, "blocks": conf.Blocks, "signed_transactions": conf.Txs}
	}
	if p.Post != nil {
		more, err := p.Post(p, o, all, ev)
		if err != nil {
			return nil, err
		}
		viol = append(viol, more...)
	}
	out, err := Adjudicate(p, o, viol, ev)
	if err != nil {
		return nil, err
	}
	_ = start
	return out, nil
}

// scenarioByName is filled by plans so that replay files can find their scenario again.
var scenarioRegistry = map[string]func(tier string) *Scenario{}

// Adjudicate confirms violations by re-execution, matches them against known findings, writes
// replay files and prepares the output lines.
func Adjudicate(p *Plan, o ExecOpts, viol []Violation, ev *Evidence) (*ExecOut, error) {
	out := &ExecOut{Evidence: ev}
	kf, err := LoadFindings(o.Root)
	if err != nil {
		return nil, err
	}
	sort.Slice(viol, func(i, j int) bool { return viol[i].Sig < viol[j].Sig })
	seen := map[string]bool{}
	var sigs []string
	for _, v := range viol {
		if seen[v.Sig] {
			continue
		}
		seen[v.Sig] = true
		// confirm: 5 re-executions on fresh worlds must fail identically
		if v.Hist != nil && v.Scen != "" && !strings.HasPrefix(v.Sig, "hang/") { // a hang cannot be re-executed synchronously
			if err := confirm(p, v); err != nil {
				return nil, fmt.Errorf("violation %s/%s did not reproduce deterministically: %w", v.Prop, v.Sig, err)
			}
		}
		if f := kf.Known(v.Prop, v.Sig); f != nil {
			out.KnownHits++
			out.Lines = append(out.Lines, fmt.Sprintf("KNOWN-FINDING: property=%s %s [%s]", v.Prop, shortWhat(f.What), v.Sig))
			continue
		}
		sc := findScenario(p, v.Scen)
		path, err := WriteReplay(filepath.Join(o.Root, "replays"), v, sc, p.Tier)
		if err != nil {
			return nil, err
		}
		out.NewViolations++
		sigs = append(sigs, v.Sig)
		out.Lines = append(out.Lines, fmt.Sprintf("VIOLATION property=%s replay=%s", v.Prop, path))
		out.Lines = append(out.Lines, fmt.Sprintf("  signature=%s scenario=%s\n  %s\n  history: %s", v.Sig, v.Scen, v.Detail, strings.Join(opsStr(v.Hist), " ; ")))
	}
	ev.Violations = out.NewViolations
	if len(sigs) > 0 {
		ev.Coverage["violation_signatures"] = sigs
	}
	ev.Coverage["known_findings_hit"] = out.KnownHits
	return out, nil
}

func findScenario(p *Plan, name string) *Scenario {
	for _, s := range p.Scenarios {
		if s.Name == name {
			return s
		}
	}
	return &Scenario{Name: name}
}

const pipelineSig = "node-pipeline-disagrees-with-module"

// pipelineIsSubject: the properties whose statement is about block processing by the node itself.
func pipelineIsSubject(prop string) bool { return prop == "C07" || prop == "C08" }

func confirm(p *Plan, v Violation) error {
	sc := findScenario(p, v.Scen)
	if sc.Menu == nil && sc.Cfg.Balances == nil {
		return nil
	}
	for i := 0; i < 5; i++ {
		w, err := world.New(sc.Cfg)
		if err != nil {
			return err
		}
		_, last, err := replayOps(w, sc, v.Hist, p.Monitors())
		if err != nil {
			return err
		}
		found := false
		for _, l := range last {
			if l.Prop == v.Prop && l.Sig == v.Sig {
				found = true
			}
		}
		if !found {
			return fmt.Errorf("re-execution %d did not reproduce %s", i, v.Sig)
		}
	}
	return nil
}

// ReplayFromFile re-executes a replay file without the explorer and re-evaluates the predicate.
func ReplayFromFile(path string) (bool, string, error) {
	bz, err := os.ReadFile(path)
	if err != nil {
		return false, "", err
	}
	var rf ReplayFile
	if err := json.Unmarshal(bz, &rf); err != nil {
		return false, "", err
	}
	p, err := PlanFor(rf.Violation.Prop, rf.Tier)
	if err != nil {
		return false, "", err
	}
	if p.Custom != nil {
		// custom (enumeration) checks are cheap: re-run the enumeration in a scratch root with no
		// known-findings file and look for the recorded signature
		tmp, err := os.MkdirTemp("", "fmc-replay-")
		if err != nil {
			return false, "", err
		}
		defer os.RemoveAll(tmp)
		src := os.Getenv("VERIF_ROOT")
		if src == "" {
			src = "/verif"
		}
		out, err := p.Custom(p, ExecOpts{Workers: 4, Deadline: time.Now().Add(10 * time.Minute), Root: tmp, SrcRoot: src, Tier: rf.Tier})
		if err != nil {
			return false, "", err
		}
		for _, l := range out.Lines {
			if strings.Contains(l, "signature="+rf.Violation.Sig+" ") {
				return false, fmt.Sprintf("REPRODUCED property=%s signature=%s", rf.Violation.Prop, rf.Violation.Sig), nil
			}
		}
		return true, fmt.Sprintf("not reproduced: property=%s signature=%s holds on this tree", rf.Violation.Prop, rf.Violation.Sig), nil
	}
	if rf.Violation.Sig == pipelineSig {
		for _, cs := range conformanceScenarios(rf.Tier) {
			if cs.Name != rf.Scenario {
				continue
			}
			c := RunConformance(rf.Violation.Prop, cs, [][]Op{rf.Violation.Hist}, 1)
			if len(c.Failures) > 0 {
				return false, fmt.Sprintf("REPRODUCED property=%s signature=%s\n  %s", rf.Violation.Prop, rf.Violation.Sig, c.Failures[0].Detail), nil
			}
			return true, fmt.Sprintf("not reproduced: property=%s signature=%s: the node and the module agree on the recorded history", rf.Violation.Prop, rf.Violation.Sig), nil
		}
		return false, "", fmt.Errorf("conformance scenario %q not found", rf.Scenario)
	}
	sc := findScenario(p, rf.Scenario)
	w, err := world.New(sc.Cfg)
	if err != nil {
		return false, "", err
	}
	var last []Violation
	done := make(chan error, 1)
	go func() {
		_, l, err := replayOps(w, sc, rf.Violation.Hist, p.Monitors())
		last = l
		done <- err
	}()
	select {
	case err := <-done:
		if err != nil {
			return false, "", err
		}
	case <-time.After(hangAfter):
		if strings.HasPrefix(rf.Violation.Sig, "hang/") {
			return false, fmt.Sprintf("REPRODUCED property=%s signature=%s (the history does not return within %s)", rf.Violation.Prop, rf.Violation.Sig, hangAfter), nil
		}
		return false, "", fmt.Errorf("replay did not return within %s", hangAfter)
	}
	for _, l := range last {
		if l.Prop == rf.Violation.Prop && l.Sig == rf.Violation.Sig {
			return false, fmt.Sprintf("REPRODUCED property=%s signature=%s\n  %s", l.Prop, l.Sig, l.Detail), nil
		}
	}
	return true, fmt.Sprintf("not reproduced: property=%s signature=%s holds on this tree for the recorded history", rf.Violation.Prop, rf.Violation.Sig), nil
}

func shortWhat(s string) string {
	if i := strings.Index(s, ". "); i > 0 && i < 260 {
		return s[:i+1]
	}
	if len(s) > 260 {
		return s[:260] + "…"
	}
	return s
}
