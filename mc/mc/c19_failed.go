package mc

import (
	"fmt"

	sdk "github.com/cosmos/cosmos-sdk/types"

	fkeeper "github.com/tendermint/fundraising/x/fundraising/keeper"
	ftypes "github.com/tendermint/fundraising/x/fundraising/types"

	"verif/mc/ref"
	"verif/mc/world"
)

// c19FailedCreations — ids after a creation that failed half-way.
//
// The explorer's histories run every message behind a transaction boundary, so a failed creation
// leaves nothing behind and can never collide with a later one. Another module calling the keeper's
// creation API directly (the use the listener interface exists for) may handle the error itself and
// keep what was written so far. This step enumerates, on the real keeper, every
//
//	(first creation: fixed | batch) x (how it fails: listener veto before / after the record is stored,
//	 bank failure at the 1st / 2nd / 3rd transfer) x (writes of the failed call: kept | rolled back)
//	 x (second creation: fixed | batch, other auctioneer and other amount)
//
// and checks, after the second (successful) creation: every auction record that existed before it is
// byte-identical (no id is assigned twice, no record is overwritten), the new id is greater than every
// id present before, and the new auction's selling escrow holds exactly what this creation offered
// (coins the failed call left behind under its id are not this auction's).
func c19FailedCreations(p *Plan, o ExecOpts, rs []*RunResult, ev *Evidence) ([]Violation, error) {
	var vs []Violation
	mk := func(kind, signer, amt string) Op {
		op := Op{Kind: "create_" + kind, Signer: signer, StartPrice: "1", Sell: amt + "acoin", PayDenom: "bcoin", StartK: 2, EndK: 4}
		if kind == "batch" {
			op.MinPrice, op.MaxExt, op.Rate = "0.5", 1, "0.5"
		}
		return op
	}
	type failure struct {
		name   string
		method func(kind string) string // listener method to veto ("" = none)
		bankAt int                      // mutating bank call to fail (-1 = none)
	}
	title := map[string]string{"fixed": "FixedPrice", "batch": "Batch"}
	failures := []failure{
		{"veto-before-created", func(k string) string { return "Before" + title[k] + "AuctionCreated" }, -1},
		{"veto-after-created", func(k string) string { return "After" + title[k] + "AuctionCreated" }, -1},
		{"bank-fails-at-transfer-1", func(string) string { return "" }, 0},
		{"bank-fails-at-transfer-2", func(string) string { return "" }, 1},
		{"bank-fails-at-transfer-3", func(string) string { return "" }, 2},
	}
	cases, failedAsPlanned, leftBehind := 0, 0, 0
	for _, k1 := range []string{"fixed", "batch"} {
		for _, f := range failures {
			for _, keep := range []bool{true, false} {
				for _, k2 := range []string{"fixed", "batch"} {
					w, err := world.New(world.Config{Balances: stdBalances(), Params: params("2bcoin", "", 1)})
					if err != nil {
						return nil, err
					}
					ctx := w.Base()
					// an older, untouched auction so that "records present before" is never empty
					ctx, r0 := applyWith(w, keeperWith(w, w.App.BankKeeper, nil), ctx, mk("fixed", "auc2", "3"))
					if !r0.OK() {
						return nil, fmt.Errorf("c19 failed-creation setup: %s", r0.ErrStr)
					}
					var calls []hookCall
					l := &recListener{idx: 0, w: w, calls: &calls, failMethod: f.method(k1), fails: f.method(k1) != ""}
					bank := &faultBank{BankKeeper: w.App.BankKeeper, FailAt: f.bankAt}
					kf := keeperWith(w, bank, ftypes.NewMultiFundraisingHooks(l))
					first := mk(k1, "auc1", "5")
					res1 := createDirect(w, kf, ctx, first, keep)
					cases++
					hist := fmt.Sprintf("create_fixed(auc2 3acoin) ; %v [%s, writes %s] ; %v", first, f.name, map[bool]string{true: "kept", false: "rolled back"}[keep], mk(k2, "auc2", "7"))
					if res1.OK() {
						// the failure point does not exist for this creation (fewer transfers): nothing to check
						continue
					}
					failedAsPlanned++
					pre, err := w.Snapshot(ctx)
					if err != nil {
						return nil, err
					}
					second := mk(k2, "auc2", "7")
					res2 := createDirect(w, keeperWith(w, w.App.BankKeeper, nil), ctx, second, true)
					post, err := w.Snapshot(ctx)
					if err != nil {
						return nil, err
					}
					bad := func(sig, f string, a ...any) {
						vs = append(vs, Violation{Prop: "C19", Sig: sig, Detail: fmt.Sprintf(f, a...) + "\n  history: " + hist})
					}
					if !res2.OK() {
						bad("creation-fails-after-failed-creation", "a valid creation is refused after an earlier creation failed: %s", res2.ErrStr)
						continue
					}
					if len(pre.Auctions) > 1 {
						leftBehind++
					}
					var maxPre uint64
					for _, a := range pre.Auctions {
						if a.ID > maxPre {
							maxPre = a.ID
						}
						b := post.Auction(a.ID)
						if b == nil || b.Raw != a.Raw {
							bad("auction-id-reused", "the record stored under auction id %d before the creation is gone or overwritten by it (auctioneer %s -> %s)", a.ID, world.NameOf(a.Auctioneer), nameOfAuction(b))
						}
					}
					var created *ref.Auction
					for _, a := range post.Auctions {
						if pre.Auction(a.ID) == nil {
							created = a
						}
					}
					if created == nil {
						if len(post.Auctions) == len(pre.Auctions) {
							// reported above as a reused id
							continue
						}
						bad("auction-id-reused", "no new auction id appeared although the creation succeeded")
						continue
					}
					if created.ID <= maxPre {
						bad("auction-id-not-increasing", "new auction got id %d although id %d already existed", created.ID, maxPre)
					}
					got := post.Bal[created.SellAddr].Get("acoin")
					if got.Cmp(created.SellAmt) != 0 {
						bad("escrow-shared-with-failed-creation", "the selling escrow of new auction %d holds %sacoin right after its creation, the creation offered %sacoin (the rest was put there by the creation that failed)", created.ID, got, created.SellAmt)
					}
				}
			}
		}
	}
	ev.Coverage["failed_creation_cases"] = map[string]any{
		"what":                      "direct keeper creations failing at every listener veto / bank transfer, writes kept or rolled back, followed by a second creation; record identity, id order and the new escrow checked",
		"cases":                     cases,
		"first_creation_failed":     failedAsPlanned,
		"failed_call_left_a_record": leftBehind,
		"failure_points":            len(failures),
	}
	return vs, nil
}

func nameOfAuction(a *ref.Auction) string {
	if a == nil {
		return "<absent>"
	}
	return world.NameOf(a.Auctioneer)
}

// createDirect calls the creation handler over keeper k on ctx itself (keep) or on a branch that is
// dropped when the call fails (the transaction boundary).
func createDirect(w *world.World, k fkeeper.Keeper, ctx sdk.Context, op Op, keep bool) Result {
	if !keep {
		_, res := applyWith(w, k, ctx, op)
		return res
	}
	res := Result{Stage: "api"}
	ms := fkeeper.NewMsgServerImpl(k)
	func() {
		defer func() {
			if r := recover(); r != nil {
				res.Err = fmt.Errorf("panic in handler: %v", r)
			}
		}()
		switch m := op.Msg(w).(type) {
		case *ftypes.MsgCreateFixedPriceAuction:
			_, res.Err = ms.CreateFixedPriceAuction(ctx, m)
		case *ftypes.MsgCreateBatchAuction:
			_, res.Err = ms.CreateBatchAuction(ctx, m)
		default:
			res.Err = fmt.Errorf("unsupported message %T", m)
		}
	}()
	if res.Err != nil {
		res.ErrStr = res.Err.Error()
	}
	return res
}
