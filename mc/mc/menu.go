package mc

import (
	"math/big"
	"time"

	"verif/mc/ref"
	"verif/mc/world"
)

// Alphabet is the finite value alphabet of a scenario; Menu turns it into the state-dependent list
// of enabled ops (valid-biased: ops that can succeed in the state, plus one representative per
// rejection reason; rejected ops are checked by the monitors and never recursed into).
type Alphabet struct {
	Creates         []Op
	Bidders         []string // accounts that try to bid
	AllowBidders    []string // accounts the external module may allow-list
	AllowCaps       []string
	UpdateCaps      []string
	FixedAmts       []string // coin amounts for fixed-price bids (used in both denominations)
	BatchPrices     []string
	WorthAmts       []string
	ManyAmts        []string
	ModPrices       []string // absolute new prices offered to modifications
	ModAmts         []string // absolute new amounts offered to modifications
	Cancellers      []string
	MaxK            int
	Donate          []Op // donation templates (AID filled per auction)
	EntryIDMismatch bool // also offer allow-list entries whose own auction_id field names another auction
	MalformedBids   bool // also offer bids whose kind is 0 (left out) or unknown
	Reimport        int  // 1: offer a restart from the exported state; 2: also with the file's lists reversed
	ModRejects      bool // include one invalid modification per rejection reason for every bid
	MsgAddAllow     bool // include MsgAddAllowedBidder by every bidder at every state (C10)
	Rejects         bool // include representative invalid ops while the auction is waiting or open
	RejectsTerm     bool // ... and on vesting / finished / cancelled auctions too
	ParamUpdates    []Op
	// BlockStops restricts block targets to these instants (nil = every instant up to MaxK).
	BlockStops []int
}

func KOf(t time.Time) int {
	return int(t.Sub(world.T0) / (24 * time.Hour))
}

func big0(s string) *big.Int {
	v, ok := new(big.Int).SetString(s, 10)
	if !ok {
		panic("bad int " + s)
	}
	return v
}

func (al *Alphabet) Menu(st *ref.State, bud Budget) []Op {
	var ops []Op
	curK := KOf(st.Time)

	for _, a := range st.Auctions {
		open := a.Status == ref.StatusStarted
		live := a.Status == ref.StatusStandBy || open
		rej := (al.Rejects && live) || al.RejectsTerm
		// allow-list (external module API)
		if live {
			for _, b := range al.AllowBidders {
				addr := world.A(b).Addr.String()
				cur := st.AllowedOf(a.ID, addr)
				if cur == nil {
					for _, c := range al.AllowCaps {
						ops = append(ops, Op{Kind: "add_allowed", AID: a.ID, Bidder: b, Max: c, Budget: "allow"})
					}
					if al.EntryIDMismatch {
						// the external module fills the entry's own auction_id field with another auction's id
						ops = append(ops, Op{Kind: "add_allowed", AID: a.ID, Bidder: b, Max: al.AllowCaps[0], Budget: "allow", EntryAIDOther: true})
					}
				} else {
					for _, c := range al.UpdateCaps {
						if cur.Max.Cmp(big0(c)) != 0 {
							ops = append(ops, Op{Kind: "update_allowed", AID: a.ID, Bidder: b, Max: c, Budget: "update"})
						}
					}
				}
			}
		}
		if al.MsgAddAllow {
			// signed by every bidder, by an outsider, and by the auctioneers (an account may hold two roles)
			signers := append(append([]string{}, al.Bidders...), "auc1", "auc2")
			for _, b := range signers {
				ops = append(ops, Op{Kind: "msg_add_allowed", AID: a.ID, Bidder: b, Max: "1", Budget: "msgallow"})
			}
		}
		// bids (representatives offered while the auction is not open are expected to be rejected and
		// therefore consume no budget)
		bb, mb, cb := "bid", "mod", "cancel"
		if !open {
			bb, mb = "", ""
		}
		if a.Status != ref.StatusStandBy {
			cb = ""
		}
		if open || rej {
			for bi, b := range al.Bidders {
				if !open && bi > 0 {
					break // one representative bidder is enough for a status rejection
				}
				if a.Type == ref.TypeFixed {
					price := ratStr(a.StartPrice)
					for ai, amt := range al.FixedAmts {
						if !open && ai > 0 {
							break
						}
						ops = append(ops, Op{Kind: "place", Signer: b, AID: a.ID, BidType: ref.BidFixed, Price: price, Denom: a.PayDenom, Amt: amt, Budget: bb})
						ops = append(ops, Op{Kind: "place", Signer: b, AID: a.ID, BidType: ref.BidFixed, Price: price, Denom: a.SellDenom, Amt: amt, Budget: bb})
					}
				} else {
					for pi, p := range al.BatchPrices {
						if !open && pi > 0 {
							break
						}
						for ai, amt := range al.WorthAmts {
							if !open && ai > 0 {
								break
							}
							ops = append(ops, Op{Kind: "place", Signer: b, AID: a.ID, BidType: ref.BidWorth, Price: p, Denom: a.PayDenom, Amt: amt, Budget: bb})
						}
						for ai, amt := range al.ManyAmts {
							if !open && ai > 0 {
								break
							}
							ops = append(ops, Op{Kind: "place", Signer: b, AID: a.ID, BidType: ref.BidMany, Price: p, Denom: a.SellDenom, Amt: amt, Budget: bb})
						}
					}
				}
			}
		}
		// malformed bids: a bid whose kind is left out (0) or unknown (7). A correct tree refuses them;
		// if a tree accepts one, the bid is part of the history and the following blocks must cope with it.
		if al.MalformedBids && open && len(al.Bidders) > 0 {
			for _, bt := range []int{0, 7} {
				denom, price := a.PayDenom, ratStr(a.StartPrice)
				ops = append(ops, Op{Kind: "place", Signer: al.Bidders[0], AID: a.ID, BidType: bt, Price: price, Denom: denom, Amt: "2", Budget: bb, Tag: "malformed-kind"})
			}
		}
		// modifications
		if a.Type == ref.TypeBatch && (open || rej) {
			for _, b := range st.Bids[a.ID] {
				owner := world.NameOf(b.Bidder)
				n := 0
				for _, p := range append([]string{ratStr(b.Price)}, al.ModPrices...) {
					for _, amt := range append([]string{b.Amt.String()}, al.ModAmts...) {
						pr := ref.R(p)
						am := big0(amt)
						if pr.Cmp(b.Price) < 0 || am.Cmp(b.Amt) < 0 {
							continue
						}
						if pr.Cmp(b.Price) == 0 && am.Cmp(b.Amt) == 0 {
							continue
						}
						if !open && n > 0 {
							continue
						}
						n++
						ops = append(ops, Op{Kind: "modify", Signer: owner, AID: a.ID, BidID: b.ID, Price: p, Denom: b.Denom, Amt: amt, Budget: mb})
					}
				}
			}
		}
		if al.ModRejects && open {
			for _, b := range st.Bids[a.ID] {
				owner := world.NameOf(b.Bidder)
				other := ""
				for _, x := range al.Bidders {
					if x != owner {
						other = x
						break
					}
				}
				up := new(big.Int).Add(b.Amt, big.NewInt(1)).String()
				hi := ratStr(new(big.Rat).Add(b.Price, big.NewRat(1, 1)))
				mk := func(signer, price, denom, amt, tag string) {
					ops = append(ops, Op{Kind: "modify", Signer: signer, AID: a.ID, BidID: b.ID, Price: price, Denom: denom, Amt: amt, Budget: "mod", Tag: tag})
				}
				if other != "" {
					mk(other, hi, b.Denom, up, "not-owner")
				}
				mk("out1", hi, b.Denom, up, "outsider")
				mk(owner, ratStr(b.Price), b.Denom, b.Amt.String(), "unchanged")
				if b.Amt.Cmp(big.NewInt(1)) > 0 {
					mk(owner, hi, b.Denom, new(big.Int).Sub(b.Amt, big.NewInt(1)).String(), "lower-amount")
				}
				lowP := new(big.Rat).Quo(b.Price, big.NewRat(2, 1))
				mk(owner, lowP.FloatString(18), b.Denom, up, "lower-price")
				wrong := a.SellDenom
				if b.Denom == a.SellDenom {
					wrong = a.PayDenom
				}
				mk(owner, hi, wrong, up, "wrong-denom")
				if a.Type == ref.TypeBatch {
					mk(owner, hi, b.Denom, up, "valid-both-up")
					ops = append(ops, Op{Kind: "modify", Signer: owner, AID: a.ID, BidID: b.ID + 50, Price: hi, Denom: b.Denom, Amt: up, Budget: "mod", Tag: "no-such-bid"})
				}
			}
		}
		// cancel
		for _, c := range al.Cancellers {
			if a.Status == ref.StatusStandBy || rej {
				ops = append(ops, Op{Kind: "cancel", Signer: c, AID: a.ID, Budget: cb})
			}
		}
		for _, d := range al.Donate {
			d.AID = a.ID
			d.Budget = "donate"
			ops = append(ops, d)
		}
	}
	if al.Reimport > 0 && len(st.Auctions) > 0 {
		ops = append(ops, Op{Kind: "reimport", Budget: "reimport"})
		if al.Reimport > 1 {
			ops = append(ops, Op{Kind: "reimport", Reversed: true, Budget: "reimport"})
		}
	}
	for _, c := range al.Creates {
		c.Budget = "create"
		ops = append(ops, c)
	}
	for _, p := range al.ParamUpdates {
		p.Budget = "params"
		ops = append(ops, p)
	}
	if al.BlockStops != nil {
		for _, k := range al.BlockStops {
			if k > curK && k <= al.MaxK {
				ops = append(ops, Op{Kind: "block", K: k, Budget: "block"})
			}
		}
	} else {
		for k := curK + 1; k <= al.MaxK; k++ {
			ops = append(ops, Op{Kind: "block", K: k, Budget: "block"})
		}
	}
	ops = append(ops, Op{Kind: "tick", Budget: "tick"})
	return ops
}

// ratStr renders a rational that came from an 18-decimal value back to its decimal string.
func ratStr(r *big.Rat) string {
	return r.FloatString(18)
}

// Describe returns the alphabet in a form fit for evidence / replay files.
func (al *Alphabet) Describe() map[string]any {
	var cs []string
	for _, c := range al.Creates {
		cs = append(cs, c.String())
	}
	return map[string]any{"creates": cs, "bidders": al.Bidders, "allow_caps": al.AllowCaps, "update_caps": al.UpdateCaps,
		"fixed_amts": al.FixedAmts, "batch_prices": al.BatchPrices, "worth_amts": al.WorthAmts, "many_amts": al.ManyAmts,
		"mod_prices": al.ModPrices, "mod_amts": al.ModAmts, "cancellers": al.Cancellers, "max_k": al.MaxK, "block_stops": al.BlockStops,
		"rejects": al.Rejects, "rejects_terminal": al.RejectsTerm, "msg_add_allowed": al.MsgAddAllow}
}
