package mc

import (
	"crypto/sha256"
	"encoding/hex"
	"fmt"
	"math/big"
	"sort"
	"sync"

	"verif/mc/ref"
	"verif/mc/world"
)

// -------------------------------------------------------------------------------------------
// C19 — operations touch only their own auction and never alter agreed terms.
// -------------------------------------------------------------------------------------------

// projection is everything the module holds about one auction, as raw bytes plus escrow balances.
func projection(s *ref.State, id uint64) string {
	a := s.Auction(id)
	if a == nil {
		return "absent"
	}
	p := "A:" + a.Raw
	for _, b := range s.Bids[id] {
		p += "|B:" + b.Raw
	}
	for _, al := range s.Allowed[id] {
		p += "|L:" + al.Bidder + ":" + al.Raw
	}
	for _, q := range s.VQs[id] {
		p += "|Q:" + q.Raw
	}
	p += fmt.Sprintf("|seq:%d", s.BidSeq[id])
	if v, ok := s.MatchedLen[id]; ok {
		p += fmt.Sprintf("|ml:%d", v)
	}
	p += "|sell:" + s.Bal[a.SellAddr].String() + "|pay:" + s.Bal[a.PayAddr].String() + "|vest:" + s.Bal[a.VestAddr].String()
	return p
}

func digest(s string) string {
	h := sha256.Sum256([]byte(s))
	return hex.EncodeToString(h[:12])
}

func terms(a *ref.Auction) string {
	t := fmt.Sprintf("%d|%s|%s%s|%s|%s|%s|%s|%s|%s|%d", a.Type, a.Auctioneer, a.SellAmt, a.SellDenom, a.PayDenom, ratStr(a.StartPrice),
		a.Start.UTC(), a.EndTimes[0].UTC(), a.SellAddr, a.PayAddr+a.VestAddr, a.ID)
	for _, s := range a.Schedules {
		t += "|" + s.Release.UTC().String() + ":" + s.Weight.FloatString(18)
	}
	if a.Type == ref.TypeBatch {
		t += fmt.Sprintf("|min=%s|ext=%d|rate=%s", ratStr(a.MinBidPrice), a.MaxExt, ratStr(a.Rate))
	}
	return t
}

type niEntry struct {
	outcome string
	hist    []string
}

// niTable is shared by all workers of a run: (projection of X, actor, params, time, op) -> outcome.
type niTable struct {
	mu sync.Mutex
	m  map[string]niEntry
}

type monC19 struct {
	st  *Stats
	tab *niTable
}

// NewC19Factory returns a monitor factory whose monitors share one non-interference table.
func NewC19Factory() func() Monitor {
	tab := &niTable{m: map[string]niEntry{}}
	return func() Monitor { return &monC19{st: NewStats(), tab: tab} }
}
func (m *monC19) Prop() string  { return "C19" }
func (m *monC19) Stats() *Stats { return m.st }

var escrowDistinctOnce sync.Once
var escrowDistinctErr string

func (m *monC19) OnTransition(t *Transition) []Violation {
	var vs []Violation
	bad := func(sig, f string, a ...any) {
		vs = append(vs, Violation{Prop: "C19", Sig: sig, Detail: fmt.Sprintf(f, a...)})
	}
	escrowDistinctOnce.Do(func() {
		seen := map[string]string{}
		for id := uint64(0); id < 64; id++ {
			s, p, v := world.EscrowAddrs(id)
			for role, addr := range map[string]string{"sell": s, "pay": p, "vest": v} {
				k := fmt.Sprintf("%s#%d", role, id)
				if o, ok := seen[addr]; ok {
					escrowDistinctErr = fmt.Sprintf("%s and %s share the address %s", o, k, addr)
				}
				seen[addr] = k
			}
		}
	})
	if escrowDistinctErr != "" {
		bad("escrow-address-collision", "%s", escrowDistinctErr)
	}
	now := t.Post.Time
	// which auction may this transition touch?
	target := int64(-1)
	switch t.Op.Kind {
	case "create_fixed", "create_batch":
		target = int64(t.Pre.NextAuctionID)
	case "block", "tick", "update_params":
	default:
		target = int64(t.Op.AID)
	}
	multi := len(t.Pre.Auctions) >= 2
	for _, a := range t.Pre.Auctions {
		pa := t.Post.Auction(a.ID)
		if pa == nil {
			bad("auction-removed", "auction %d disappeared after %v", a.ID, t.Op)
			continue
		}
		// agreed terms never change, whatever the op
		if terms(a) != terms(pa) {
			bad("terms-changed/"+t.Op.Kind, "agreed terms of auction %d changed after %v:\n  before %s\n  after  %s", a.ID, t.Op, terms(a), terms(pa))
		}
		m.st.Inc("terms_checks")
		// frame
		mayChange := false
		if isBlock(t.Op) {
			mayChange = ref.StepOf(t.Pre, a, now).Kind != ref.StepNone
		} else if int64(a.ID) == target && t.Res.OK() {
			mayChange = true
		}
		if !mayChange {
			if projection(t.Pre, a.ID) != projection(t.Post, a.ID) {
				bad("frame/"+t.Op.Kind, "auction %d (not the target of %v, no lifecycle step due) changed:\n  before %s\n  after  %s", a.ID, t.Op, digestParts(t.Pre, a.ID), digestParts(t.Post, a.ID))
			}
			if multi {
				m.st.Inc("frame_checks_with_other_auctions")
				m.st.Case("frame", t.Op.Kind+"|"+digest(projection(t.Pre, a.ID))+"|"+fmt.Sprint(a.ID))
			}
		}
	}
	// bids keep auction, owner, type
	for aid, bids := range t.Pre.Bids {
		for _, b := range bids {
			nb := t.Post.Bid(aid, b.ID)
			if nb == nil {
				bad("bid-removed", "bid #%d of auction %d disappeared after %v", b.ID, aid, t.Op)
			} else if nb.Bidder != b.Bidder || nb.Type != b.Type || nb.AID != b.AID {
				bad("bid-identity-changed", "bid #%d of auction %d changed auction/owner/type after %v", b.ID, aid, t.Op)
			}
		}
	}
	// ids
	if t.Post.NextAuctionID < t.Pre.NextAuctionID {
		bad("auction-counter-decreased", "auction counter %d -> %d after %v", t.Pre.NextAuctionID, t.Post.NextAuctionID, t.Op)
	}
	created := len(t.Post.Auctions) - len(t.Pre.Auctions)
	if created != 0 {
		ok := (t.Op.Kind == "create_fixed" || t.Op.Kind == "create_batch") && t.Res.OK() && created == 1
		if !ok {
			bad("auction-count-changed", "number of auctions %d -> %d after %v", len(t.Pre.Auctions), len(t.Post.Auctions), t.Op)
		} else {
			na := t.Post.Auctions[len(t.Post.Auctions)-1]
			if na.ID != t.Pre.NextAuctionID || t.Post.NextAuctionID != t.Pre.NextAuctionID+1 {
				bad("auction-id-assignment", "%v created auction %d with counter %d -> %d", t.Op, na.ID, t.Pre.NextAuctionID, t.Post.NextAuctionID)
			}
			s, p, v := world.EscrowAddrs(na.ID)
			if na.SellAddr != s || na.PayAddr != p || na.VestAddr != v {
				bad("escrow-address-derivation", "auction %d records escrow addresses that are not derived from its id", na.ID)
			}
			m.st.Inc("creations")
		}
	} else if t.Post.NextAuctionID != t.Pre.NextAuctionID {
		bad("auction-counter-moved-without-creation", "auction counter %d -> %d after %v", t.Pre.NextAuctionID, t.Post.NextAuctionID, t.Op)
	}
	for _, a := range t.Post.Auctions {
		preSeq, postSeq := t.Pre.BidSeq[a.ID], t.Post.BidSeq[a.ID]
		nPre, nPost := len(t.Pre.Bids[a.ID]), len(t.Post.Bids[a.ID])
		if postSeq < preSeq {
			bad("bid-counter-decreased", "bid counter of auction %d: %d -> %d after %v", a.ID, preSeq, postSeq, t.Op)
		}
		if nPost != nPre {
			ok := t.Op.Kind == "place" && t.Res.OK() && t.Op.AID == a.ID && nPost == nPre+1
			if !ok {
				bad("bid-count-changed", "auction %d has %d -> %d bids after %v", a.ID, nPre, nPost, t.Op)
			} else {
				nb := t.Post.Bids[a.ID][nPost-1]
				if nb.ID != preSeq+1 || postSeq != preSeq+1 {
					bad("bid-id-assignment", "%v stored bid #%d with counter %d -> %d", t.Op, nb.ID, preSeq, postSeq)
				}
				for _, ob := range t.Pre.Bids[a.ID] {
					if ob.ID >= nb.ID {
						bad("bid-id-not-increasing", "new bid #%d does not exceed existing bid #%d", nb.ID, ob.ID)
					}
				}
				if nb.AID != a.ID || nb.Bidder != addrOf(t.Op.Signer) || nb.Type != t.Op.BidType {
					bad("bid-record-mismatch", "%v stored as %v", t.Op, nb)
				}
				m.st.Inc("bid_ids_checked")
			}
		} else if postSeq != preSeq {
			bad("bid-counter-moved-without-bid", "bid counter of auction %d: %d -> %d after %v", a.ID, preSeq, postSeq, t.Op)
		}
	}
	// non-interference: same view of X (+ actor, params, time) and same op => same outcome
	if multi {
		var xs []uint64
		if isBlock(t.Op) {
			for _, a := range t.Pre.Auctions {
				xs = append(xs, a.ID)
			}
		} else if target >= 0 && t.Pre.Auction(uint64(target)) != nil {
			xs = []uint64{uint64(target)}
		}
		for _, x := range xs {
			actor := ""
			if !isBlock(t.Op) {
				who := t.Op.Signer
				if t.Op.Kind == "add_allowed" || t.Op.Kind == "update_allowed" || t.Op.Kind == "msg_add_allowed" {
					who = t.Op.Bidder
				}
				actor = fundsClass(t.Pre, addrOf(who), t.Op)
			}
			o := t.Op
			o.Budget, o.Tag = "", ""
			key := digest(fmt.Sprintf("%s||%s||%s/%s/%d||%s||%v", projection(t.Pre, x), actor, t.Pre.CreationFee, t.Pre.BidFee, t.Pre.ExtPeriod, now.UTC(), o))
			outcome := "accepted"
			if !t.Res.OK() {
				outcome = "rejected:" + classifyErr(t.Res.ErrStr)
			}
			outcome += "||" + digest(projection(t.Post, x))
			others := ""
			for _, a := range t.Pre.Auctions {
				if a.ID != x {
					others += digest(projection(t.Pre, a.ID)) + ","
				}
			}
			m.tab.mu.Lock()
			e, ok := m.tab.m[key]
			if !ok {
				m.tab.m[key] = niEntry{outcome: outcome, hist: opsStr(t.History())}
			}
			m.tab.mu.Unlock()
			m.st.Inc("noninterference_lookups")
			m.st.Case("ni-key", key)
			m.st.Case("ni-context", key+others)
			if ok && e.outcome != outcome {
				bad("non-interference/"+t.Op.Kind, "%v on auction %d gives a different outcome although the auction's own records, the actor's balances, params and time are identical; only other auctions differ.\n  this history:  %v -> %s\n  other history: %v -> %s", t.Op, x, opsStr(t.History()), outcome, e.hist, e.outcome)
			}
		}
	}
	return vs
}

// fundsClass is how the actor's balances enter the non-interference key: only as far as they can
// matter. A denomination in which the actor holds at least an upper bound of everything the
// operation can charge (reservation + every fee) is recorded as "enough", any other exactly; an
// operation that charges nothing records nothing. Two contexts in which the actor spent different
// amounts in OTHER auctions therefore still meet under one key, which is what lets the table see a
// bidder's bids elsewhere leak into this auction.
func fundsClass(s *ref.State, who string, op Op) string {
	ub := new(big.Int)
	switch op.Kind {
	case "place", "modify":
		amt := big0(op.Amt)
		pr := ref.R(op.Price)
		if pr.Sign() > 0 && amt.Sign() > 0 {
			v := new(big.Int).Mul(pr.Num(), amt)
			v.Quo(v, pr.Denom())
			ub.Add(v, big.NewInt(1))
		}
		ub.Add(ub, new(big.Int).Abs(amt))
	case "create_fixed", "create_batch":
		_, sa := splitCoin(op.Sell)
		ub.Abs(sa)
	case "cancel", "add_allowed", "update_allowed", "msg_add_allowed":
		return "charges-nothing"
	default:
		return s.Bal[who].String()
	}
	for _, fee := range []ref.Coins{s.CreationFee, s.BidFee} {
		for _, v := range fee {
			ub.Add(ub, v)
		}
	}
	out := ""
	for _, d := range world.TrackedDenoms {
		b := s.Bal[who].Get(d)
		if b.Cmp(ub) >= 0 {
			out += d + ":enough,"
		} else {
			out += d + ":" + b.String() + ","
		}
	}
	return out
}

func digestParts(s *ref.State, id uint64) string {
	a := s.Auction(id)
	if a == nil {
		return "absent"
	}
	var parts []string
	parts = append(parts, "record="+digest(a.Raw), fmt.Sprintf("status=%s", ref.StatusName(a.Status)))
	parts = append(parts, fmt.Sprintf("bids=%d allowed=%d vq=%d seq=%d ml=%d", len(s.Bids[id]), len(s.Allowed[id]), len(s.VQs[id]), s.BidSeq[id], s.MatchedLen[id]))
	parts = append(parts, "sell="+s.Bal[a.SellAddr].String(), "pay="+s.Bal[a.PayAddr].String(), "vest="+s.Bal[a.VestAddr].String())
	sort.Strings(parts[2:])
	return fmt.Sprint(parts)
}
