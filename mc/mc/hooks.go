package mc

import (
	"context"
	"errors"
	"fmt"
	"sort"
	"strings"
	"time"

	"cosmossdk.io/math"
	sdk "github.com/cosmos/cosmos-sdk/types"

	fkeeper "github.com/tendermint/fundraising/x/fundraising/keeper"
	fmodule "github.com/tendermint/fundraising/x/fundraising/module"
	ftypes "github.com/tendermint/fundraising/x/fundraising/types"

	"verif/mc/ref"
	"verif/mc/world"
)

// -------------------------------------------------------------------------------------------
// C17 — every hook fires once, with the real values, and can veto.
// Exhaustive enumeration: op that fires a hook x pre-state x number of listeners (1..3) x failing
// listener position (none, 0..n-1) x failing hook method x registration path.
// -------------------------------------------------------------------------------------------

var ErrVeto = errors.New("verif: listener veto")

type hookCall struct {
	Listener int
	Method   string
	Args     string
	View     *ref.State // store + balances as the listener sees them at call time
}

type recListener struct {
	idx        int
	w          *world.World
	calls      *[]hookCall
	failMethod string
	fails      bool
}

func (l *recListener) rec(ctx context.Context, method, args string) error {
	view, err := l.w.Snapshot(sdk.UnwrapSDKContext(ctx))
	if err != nil {
		panic(err)
	}
	*l.calls = append(*l.calls, hookCall{Listener: l.idx, Method: method, Args: args, View: view})
	if l.fails && l.failMethod == method {
		return ErrVeto
	}
	return nil
}

func schedStr(vs []ftypes.VestingSchedule) string {
	s := ""
	for _, v := range vs {
		s += v.ReleaseTime.UTC().Format(time.RFC3339) + ":" + v.Weight.String() + ","
	}
	return s
}

func mapStr(m map[string]math.Int) string {
	var ks []string
	for k, v := range m {
		if !v.IsNil() && !v.IsZero() {
			ks = append(ks, world.NameOf(k)+"="+v.String())
		}
	}
	sort.Strings(ks)
	return strings.Join(ks, ",")
}

func (l *recListener) BeforeFixedPriceAuctionCreated(ctx context.Context, auctioneer string, startPrice math.LegacyDec, sellingCoin sdk.Coin, payingCoinDenom string, vs []ftypes.VestingSchedule, startTime, endTime time.Time) error {
	return l.rec(ctx, "BeforeFixedPriceAuctionCreated", fmt.Sprintf("%s|%s|%s|%s|%s|%s|%s", auctioneer, startPrice, sellingCoin, payingCoinDenom, schedStr(vs), startTime.UTC().Format(time.RFC3339), endTime.UTC().Format(time.RFC3339)))
}
func (l *recListener) AfterFixedPriceAuctionCreated(ctx context.Context, id uint64, auctioneer string, startPrice math.LegacyDec, sellingCoin sdk.Coin, payingCoinDenom string, vs []ftypes.VestingSchedule, startTime, endTime time.Time) error {
	return l.rec(ctx, "AfterFixedPriceAuctionCreated", fmt.Sprintf("%d|%s|%s|%s|%s|%s|%s|%s", id, auctioneer, startPrice, sellingCoin, payingCoinDenom, schedStr(vs), startTime.UTC().Format(time.RFC3339), endTime.UTC().Format(time.RFC3339)))
}
func (l *recListener) BeforeBatchAuctionCreated(ctx context.Context, auctioneer string, startPrice, minBidPrice math.LegacyDec, sellingCoin sdk.Coin, payingCoinDenom string, vs []ftypes.VestingSchedule, maxExt uint32, rate math.LegacyDec, startTime, endTime time.Time) error {
	return l.rec(ctx, "BeforeBatchAuctionCreated", fmt.Sprintf("%s|%s|%s|%s|%s|%s|%d|%s|%s|%s", auctioneer, startPrice, minBidPrice, sellingCoin, payingCoinDenom, schedStr(vs), maxExt, rate, startTime.UTC().Format(time.RFC3339), endTime.UTC().Format(time.RFC3339)))
}
func (l *recListener) AfterBatchAuctionCreated(ctx context.Context, id uint64, auctioneer string, startPrice, minBidPrice math.LegacyDec, sellingCoin sdk.Coin, payingCoinDenom string, vs []ftypes.VestingSchedule, maxExt uint32, rate math.LegacyDec, startTime, endTime time.Time) error {
	return l.rec(ctx, "AfterBatchAuctionCreated", fmt.Sprintf("%d|%s|%s|%s|%s|%s|%s|%d|%s|%s|%s", id, auctioneer, startPrice, minBidPrice, sellingCoin, payingCoinDenom, schedStr(vs), maxExt, rate, startTime.UTC().Format(time.RFC3339), endTime.UTC().Format(time.RFC3339)))
}
func (l *recListener) BeforeAuctionCanceled(ctx context.Context, id uint64, auctioneer string) error {
	return l.rec(ctx, "BeforeAuctionCanceled", fmt.Sprintf("%d|%s", id, auctioneer))
}
func (l *recListener) BeforeBidPlaced(ctx context.Context, aid, bidId uint64, bidder string, bt ftypes.BidType, price math.LegacyDec, coin sdk.Coin) error {
	return l.rec(ctx, "BeforeBidPlaced", fmt.Sprintf("%d|%d|%s|%d|%s|%s", aid, bidId, bidder, bt, price, coin))
}
func (l *recListener) BeforeBidModified(ctx context.Context, aid, bidId uint64, bidder string, bt ftypes.BidType, price math.LegacyDec, coin sdk.Coin) error {
	return l.rec(ctx, "BeforeBidModified", fmt.Sprintf("%d|%d|%s|%d|%s|%s", aid, bidId, bidder, bt, price, coin))
}
func (l *recListener) BeforeAllowedBiddersAdded(ctx context.Context, abs []ftypes.AllowedBidder) error {
	s := ""
	for _, a := range abs {
		s += fmt.Sprintf("%d/%s/%s,", a.AuctionId, a.Bidder, a.MaxBidAmount)
	}
	return l.rec(ctx, "BeforeAllowedBiddersAdded", s)
}
func (l *recListener) BeforeAllowedBidderUpdated(ctx context.Context, aid uint64, bidder sdk.AccAddress, max math.Int) error {
	return l.rec(ctx, "BeforeAllowedBidderUpdated", fmt.Sprintf("%d|%s|%s", aid, bidder.String(), max))
}
func (l *recListener) BeforeSellingCoinsAllocated(ctx context.Context, aid uint64, alloc, refund map[string]math.Int) error {
	return l.rec(ctx, "BeforeSellingCoinsAllocated", fmt.Sprintf("%d|alloc{%s}|refund{%s}", aid, mapStr(alloc), mapStr(refund)))
}

var _ ftypes.FundraisingHooks = (*recListener)(nil)

// applyWith executes op with keeper k (a second real keeper over the application's store).
func applyWith(w *world.World, k fkeeper.Keeper, ctx sdk.Context, op Op) (sdk.Context, Result) {
	switch op.Kind {
	case "block", "tick":
		t := world.Instant(op.K)
		if op.Kind == "tick" {
			t = ctx.BlockTime().Add(time.Hour)
		}
		h := ctx.BlockHeader()
		h.Height++
		h.Time = t
		nctx := ctx.WithBlockHeader(h).WithEventManager(sdk.NewEventManager())
		err, pan := blockWith(w, k, nctx)
		res := Result{Stage: "block", Err: err, Panic: pan, Events: nctx.EventManager().ABCIEvents()}
		if err != nil {
			res.ErrStr = err.Error()
		}
		return nctx, res
	case "add_allowed", "update_allowed":
		cctx, write := ctx.CacheContext()
		res := Result{Stage: "api"}
		if op.Kind == "add_allowed" {
			res.Err = k.AddAllowedBidders(cctx, op.AID, []ftypes.AllowedBidder{{AuctionId: op.AID, Bidder: msgAddr(op.Bidder), MaxBidAmount: mustInt(op.Max)}})
		} else {
			res.Err = k.UpdateAllowedBidder(cctx, op.AID, world.A(op.Bidder).Addr, mustInt(op.Max))
		}
		if res.Err != nil {
			res.ErrStr = res.Err.Error()
			return ctx, res
		}
		write()
		return ctx, res
	}
	msg := op.Msg(w)
	res := Result{Stage: "handler"}
	if vb, ok := msg.(hasValidateBasic); ok {
		if err := vb.ValidateBasic(); err != nil {
			res.Err, res.ErrStr, res.Stage = err, err.Error(), "validate_basic"
			return ctx, res
		}
	}
	ms := fkeeper.NewMsgServerImpl(k)
	cctx, write := ctx.CacheContext()
	cctx = cctx.WithEventManager(sdk.NewEventManager())
	func() {
		defer func() {
			if r := recover(); r != nil {
				res.Err = fmt.Errorf("panic in handler: %v", r)
			}
		}()
		switch m := msg.(type) {
		case *ftypes.MsgCreateFixedPriceAuction:
			_, res.Err = ms.CreateFixedPriceAuction(cctx, m)
		case *ftypes.MsgCreateBatchAuction:
			_, res.Err = ms.CreateBatchAuction(cctx, m)
		case *ftypes.MsgCancelAuction:
			_, res.Err = ms.CancelAuction(cctx, m)
		case *ftypes.MsgPlaceBid:
			_, res.Err = ms.PlaceBid(cctx, m)
		case *ftypes.MsgModifyBid:
			_, res.Err = ms.ModifyBid(cctx, m)
		default:
			res.Err = fmt.Errorf("unsupported message %T", msg)
		}
	}()
	if res.Err != nil {
		res.ErrStr = res.Err.Error()
		return ctx, res
	}
	res.Events = cctx.EventManager().ABCIEvents()
	write()
	return ctx, res
}

type hookScene struct {
	Name    string
	Pre     []Op
	Op      Op
	Methods []string // hooks this op fires, in order
}

func hookScenes() []hookScene {
	fixed := func(startK int, sc []Sched) Op {
		return Op{Kind: "create_fixed", Signer: "auc1", StartPrice: "2", Sell: "10acoin", PayDenom: "bcoin", StartK: startK, EndK: 2, Sched: sc}
	}
	batch := func(ext uint32, sc []Sched) Op {
		return Op{Kind: "create_batch", Signer: "auc1", StartPrice: "1", MinPrice: "0.5", Sell: "10acoin", PayDenom: "bcoin", StartK: 0, EndK: 2, Sched: sc, MaxExt: ext, Rate: "0.5"}
	}
	allow := func(aid uint64, b, max string) Op { return Op{Kind: "add_allowed", AID: aid, Bidder: b, Max: max} }
	fbid := func(b, denom, amt string) Op {
		return Op{Kind: "place", Signer: b, AID: 0, BidType: ref.BidFixed, Price: "2", Denom: denom, Amt: amt}
	}
	worth := func(b, price, amt string) Op {
		return Op{Kind: "place", Signer: b, AID: 0, BidType: ref.BidWorth, Price: price, Denom: "bcoin", Amt: amt}
	}
	many := func(b, price, amt string) Op {
		return Op{Kind: "place", Signer: b, AID: 0, BidType: ref.BidMany, Price: price, Denom: "acoin", Amt: amt}
	}
	cf := []string{"BeforeFixedPriceAuctionCreated", "AfterFixedPriceAuctionCreated"}
	cb := []string{"BeforeBatchAuctionCreated", "AfterBatchAuctionCreated"}
	fixedOpen := []Op{fixed(0, sched(3, 4)), allow(0, "bid1", "10"), allow(0, "bid2", "5")}
	batchOpen := func(ext uint32) []Op { return []Op{batch(ext, nil), allow(0, "bid1", "10"), allow(0, "bid2", "4")} }
	return []hookScene{
		{"create-fixed/empty-chain", nil, fixed(1, nil), cf},
		{"create-fixed/with-schedule-after-another-auction", []Op{batch(0, nil)}, fixed(0, sched(3, 4)), cf},
		{"create-batch/empty-chain", nil, batch(2, sched(5, 6)), cb},
		{"create-batch/after-another-auction", []Op{fixed(1, nil)}, batch(0, nil), cb},
		{"cancel/waiting-fixed", []Op{fixed(1, nil)}, Op{Kind: "cancel", Signer: "auc1", AID: 0}, []string{"BeforeAuctionCanceled"}},
		{"cancel/waiting-batch-second-auction", []Op{fixed(0, nil), {Kind: "create_batch", Signer: "auc1", StartPrice: "1", MinPrice: "0.5", Sell: "5acoin", PayDenom: "bcoin", StartK: 1, EndK: 2, MaxExt: 0, Rate: "0.5"}}, Op{Kind: "cancel", Signer: "auc1", AID: 1}, []string{"BeforeAuctionCanceled"}},
		{"place/fixed-paying-denom", fixedOpen, fbid("bid1", "bcoin", "7"), []string{"BeforeBidPlaced"}},
		{"place/fixed-selling-denom-second-bid", append(append([]Op{}, fixedOpen...), fbid("bid2", "bcoin", "4")), fbid("bid1", "acoin", "3"), []string{"BeforeBidPlaced"}},
		{"place/batch-worth", batchOpen(0), worth("bid1", "2", "6"), []string{"BeforeBidPlaced"}},
		{"place/batch-many-second-bid", append(batchOpen(1), worth("bid2", "1", "3")), many("bid1", "1", "3"), []string{"BeforeBidPlaced"}},
		{"modify/worth-raise-both", append(batchOpen(0), worth("bid1", "1", "3")), Op{Kind: "modify", Signer: "bid1", AID: 0, BidID: 1, Price: "2", Denom: "bcoin", Amt: "5"}, []string{"BeforeBidModified"}},
		{"modify/many-raise-price-second-bid", append(batchOpen(0), worth("bid2", "1", "3"), many("bid1", "1", "3")), Op{Kind: "modify", Signer: "bid1", AID: 0, BidID: 2, Price: "3", Denom: "acoin", Amt: "3"}, []string{"BeforeBidModified"}},
		{"add-allowed/first-entry", []Op{fixed(0, nil)}, allow(0, "bid1", "7"), []string{"BeforeAllowedBiddersAdded"}},
		{"add-allowed/overwrite-entry", []Op{fixed(0, nil), allow(0, "bid1", "7")}, allow(0, "bid1", "9"), []string{"BeforeAllowedBiddersAdded"}},
		{"update-allowed/lower", []Op{fixed(0, nil), allow(0, "bid1", "7")}, Op{Kind: "update_allowed", AID: 0, Bidder: "bid1", Max: "2"}, []string{"BeforeAllowedBidderUpdated"}},
		{"update-allowed/batch-after-bid", append(batchOpen(0), many("bid1", "1", "3")), Op{Kind: "update_allowed", AID: 0, Bidder: "bid1", Max: "1"}, []string{"BeforeAllowedBidderUpdated"}},
		{"settle/fixed-two-bidders", append(append([]Op{}, fixedOpen...), fbid("bid1", "bcoin", "7"), fbid("bid2", "acoin", "2")), Op{Kind: "block", K: 2}, []string{"BeforeSellingCoinsAllocated"}},
		{"settle/fixed-no-bids", fixedOpen, Op{Kind: "block", K: 3}, []string{"BeforeSellingCoinsAllocated"}},
		{"settle/batch-last-round-winner-and-loser", append(batchOpen(0), many("bid1", "2", "8"), worth("bid2", "1", "4")), Op{Kind: "block", K: 2}, []string{"BeforeSellingCoinsAllocated"}},
		{"settle/batch-rate-branch", append(batchOpen(2), many("bid1", "2", "3"), Op{Kind: "block", K: 2}, worth("bid2", "1", "4")), Op{Kind: "block", K: 3}, []string{"BeforeSellingCoinsAllocated"}},
		{"settle/two-auctions-in-one-block", append(append([]Op{}, fixedOpen...), batch(0, nil), allow(1, "bid1", "10"), fbid("bid1", "bcoin", "7"),
			Op{Kind: "place", Signer: "bid1", AID: 1, BidType: ref.BidMany, Price: "2", Denom: "acoin", Amt: "3"}), Op{Kind: "block", K: 2},
			[]string{"BeforeSellingCoinsAllocated", "BeforeSellingCoinsAllocated"}},
		{"settle/first-of-two-while-second-releases", []Op{fixed(0, sched(3, 4)), batch(1, nil), allow(0, "bid1", "10"), allow(1, "bid1", "10"), fbid("bid1", "bcoin", "7"),
			{Kind: "place", Signer: "bid1", AID: 1, BidType: ref.BidMany, Price: "2", Denom: "acoin", Amt: "3"}, {Kind: "block", K: 2}}, Op{Kind: "block", K: 3},
			[]string{"BeforeSellingCoinsAllocated"}},
		{"settle/batch-last-round-after-extensions", append(batchOpen(1), many("bid1", "2", "3"), Op{Kind: "block", K: 2}), Op{Kind: "block", K: 4}, []string{"BeforeSellingCoinsAllocated"}},
	}
}

type hookCase struct {
	Scene   string `json:"scene"`
	N       int    `json:"listeners"`
	FailPos int    `json:"failing_listener"` // -1 none
	Method  string `json:"failing_hook"`
	Path    string `json:"registration"`
	Calls   string `json:"calls_observed"`
}

// RunHooks is the Custom executor of the C17 plan.
func RunHooks(p *Plan, o ExecOpts) (*ExecOut, error) {
	start := time.Now()
	cfg := world.Config{Balances: stdBalances(), Params: params("2bcoin", "1bcoin", 1)}
	w, err := world.New(cfg)
	if err != nil {
		return nil, err
	}
	ev := &Evidence{PropertyID: p.Prop, Tier: p.Tier, Seed: o.Seed, Level: p.Level, Coverage: map[string]any{}, Assumptions: p.Assume}
	var viol []Violation
	var samples []any
	cases, distinct := 0, map[string]bool{}
	perMethod := map[string]int{}
	vetoes := 0
	scenes := hookScenes()
	maxN := 3
	for _, sc := range scenes {
		// pre-state by real ops on the application's own keeper
		n0, _, err := replayOps(w, &Scenario{Name: sc.Name}, sc.Pre, nil)
		if err != nil {
			return nil, err
		}
		// reference run without listeners
		_, base := applyWith(w, keeperWith(w, w.App.BankKeeper, nil), branch(n0.ctx), sc.Op)
		if !base.OK() {
			return nil, fmt.Errorf("hook scene %s: the op fails without listeners: %s", sc.Name, base.ErrStr)
		}
		for n := 1; n <= maxN; n++ {
			for failPos := -1; failPos < n; failPos++ {
				methods := sc.Methods
				if failPos == -1 {
					methods = []string{""}
				}
				for _, fm := range methods {
					for _, path := range []string{"SetHooks(Multi)", "InvokeSetHooks(map)"} {
						cases++
						var calls []hookCall
						ls := make([]ftypes.FundraisingHooks, n)
						for i := 0; i < n; i++ {
							ls[i] = &recListener{idx: i, w: w, calls: &calls, failMethod: fm, fails: i == failPos}
						}
						k := keeperWith(w, w.App.BankKeeper, nil)
						if path == "SetHooks(Multi)" {
							k.SetHooks(ftypes.NewMultiFundraisingHooks(ls...))
						} else {
							hm := map[string]ftypes.FundraisingHooks{}
							for i, l := range ls {
								hm[fmt.Sprintf("mod%c", 'a'+i)] = l // lexical order = listener index
							}
							if err := fmodule.InvokeSetHooks(&k, hm); err != nil {
								return nil, err
							}
						}
						ctx := branch(n0.ctx)
						pctx, res := applyWith(w, k, ctx, sc.Op)
						post, err := w.Snapshot(pctx)
						if err != nil {
							return nil, err
						}
						hc := hookCase{Scene: sc.Name, N: n, FailPos: failPos, Method: fm, Path: path, Calls: callsStr(calls)}
						distinct[fmt.Sprintf("%s|%d|%d|%s|%s", sc.Name, n, failPos, fm, path)] = true
						if fm != "" {
							perMethod[fm]++
							vetoes++
						}
						vs := checkHookCase(sc, n0.st, post, pctx, &res, calls, n, failPos, fm)
						for i := range vs {
							vs[i].Scen = "hooks"
							vs[i].Detail += fmt.Sprintf(" [scene %s, %d listeners, failing listener %d, failing hook %q, registered via %s; calls %s]", sc.Name, n, failPos, fm, path, hc.Calls)
						}
						viol = append(viol, vs...)
						if len(samples) < 5 && (failPos >= 0 || n == 3) {
							samples = append(samples, hc)
						}
					}
				}
			}
		}
	}
	ev.Coverage["evaluations"] = cases
	ev.Coverage["distinct_nontrivial"] = len(distinct)
	ev.Coverage["rule"] = p.Rule
	ev.Coverage["samples"] = samples
	ev.Coverage["exhaustive"] = true
	ev.Coverage["scenes"] = len(scenes)
	ev.Coverage["veto_cases"] = vetoes
	ev.Coverage["veto_cases_per_hook"] = perMethod
	ev.Coverage["max_listeners"] = maxN
	ev.WallS = time.Since(start).Seconds()
	return Adjudicate(p, o, viol, ev)
}

func branch(ctx sdk.Context) sdk.Context {
	c, _ := ctx.CacheContext()
	return c.WithEventManager(sdk.NewEventManager())
}

func callsStr(cs []hookCall) string {
	var s []string
	for _, c := range cs {
		s = append(s, fmt.Sprintf("L%d.%s", c.Listener, c.Method))
	}
	return strings.Join(s, " ")
}

func checkHookCase(sc hookScene, pre, post *ref.State, pctx sdk.Context, res *Result, calls []hookCall, n, failPos int, fm string) []Violation {
	var vs []Violation
	bad := func(sig, f string, a ...any) {
		vs = append(vs, Violation{Prop: "C17", Sig: sig, Detail: fmt.Sprintf(f, a...)})
	}
	isSettle := sc.Op.Kind == "block"
	// expected call sequence
	var want []string
	stop := false
	for _, m := range sc.Methods {
		if stop {
			break
		}
		for i := 0; i < n; i++ {
			want = append(want, fmt.Sprintf("L%d.%s", i, m))
			if i == failPos && m == fm {
				stop = true
				break
			}
		}
	}
	got := callsStr(calls)
	if got != strings.Join(want, " ") {
		cls := "call-sequence"
		if len(calls) > len(want) {
			cls = "listener-called-after-veto-or-twice"
		} else if len(calls) < len(want) {
			cls = "listener-not-called"
		}
		bad(cls+"/"+firstNonEmpty(fm, sc.Methods[0]), "expected calls [%s], observed [%s]", strings.Join(want, " "), got)
	}
	vetoed := failPos >= 0
	if vetoed {
		if res.OK() {
			bad("veto-ignored/"+fm, "listener %d returns an error from %s but %v succeeds", failPos, fm, sc.Op)
		} else if !errors.Is(res.Err, ErrVeto) {
			bad("veto-error-replaced/"+fm, "listener %d vetoes %s but the operation reports a different error: %v", failPos, fm, res.Err)
		}
		if !isSettle {
			if pre.RawModule != post.RawModule || len(Deltas(pre, post)) != 0 {
				bad("veto-effects-committed/"+fm, "%v was vetoed but the store or balances changed at the transaction boundary", sc.Op)
			}
		}
	} else if !res.OK() {
		bad("op-fails-with-listeners", "%v fails although no listener vetoes: %s", sc.Op, res.ErrStr)
	}
	// arguments and "not yet committed" views
	for _, c := range calls {
		v := c.View
		switch c.Method {
		case "BeforeFixedPriceAuctionCreated", "BeforeBatchAuctionCreated", "AfterFixedPriceAuctionCreated", "AfterBatchAuctionCreated":
			id := pre.NextAuctionID
			o := sc.Op
			var wantArgs string
			common := fmt.Sprintf("%s|%s", addrOf(o.Signer), mustDec(o.StartPrice))
			if o.Kind == "create_batch" {
				common += "|" + mustDec(o.MinPrice).String()
			}
			common += fmt.Sprintf("|%s|%s|%s", parseCoinLoose(o.Sell), o.PayDenom, schedStr(o.schedules()))
			if o.Kind == "create_batch" {
				common += fmt.Sprintf("|%d|%s", o.MaxExt, mustDec(o.Rate))
			}
			common += fmt.Sprintf("|%s|%s", world.Instant(o.StartK).Format(time.RFC3339), world.Instant(o.EndK).Format(time.RFC3339))
			wantArgs = common
			after := strings.HasPrefix(c.Method, "After")
			if after {
				wantArgs = fmt.Sprintf("%d|%s", id, common)
			}
			if c.Args != wantArgs {
				bad("wrong-arguments/"+c.Method, "listener %d got %q, the operation used %q", c.Listener, c.Args, wantArgs)
			}
			present := v.Auction(id) != nil
			if !after && present {
				bad("announced-change-already-committed/"+c.Method, "auction %d is already in the store when %s is called", id, c.Method)
			}
			if after && !present {
				bad("after-hook-before-commit/"+c.Method, "auction %d is not yet in the store when %s is called", id, c.Method)
			}
			if !vetoed {
				if a := post.Auction(id); a == nil || a.Auctioneer != addrOf(o.Signer) || a.SellAmt.String()+a.SellDenom != o.Sell {
					bad("committed-record-differs/"+c.Method, "the committed auction differs from what the listeners were told")
				}
			}
		case "BeforeAuctionCanceled":
			if c.Args != fmt.Sprintf("%d|%s", sc.Op.AID, addrOf(sc.Op.Signer)) {
				bad("wrong-arguments/"+c.Method, "listener %d got %q", c.Listener, c.Args)
			}
			if a := v.Auction(sc.Op.AID); a == nil || a.Status != ref.StatusStandBy {
				bad("announced-change-already-committed/"+c.Method, "the auction is no longer waiting in the store when %s is called", c.Method)
			}
		case "BeforeBidPlaced":
			bidID := pre.BidSeq[sc.Op.AID] + 1
			wantArgs := fmt.Sprintf("%d|%d|%s|%d|%s|%s", sc.Op.AID, bidID, addrOf(sc.Op.Signer), sc.Op.BidType, mustDec(sc.Op.Price), rawCoin(sc.Op.Denom, sc.Op.Amt))
			if c.Args != wantArgs {
				bad("wrong-arguments/"+c.Method, "listener %d got %q, the operation used %q", c.Listener, c.Args, wantArgs)
			}
			if v.Bid(sc.Op.AID, bidID) != nil {
				bad("announced-change-already-committed/"+c.Method, "bid #%d is already in the store when %s is called", bidID, c.Method)
			}
			if !vetoed {
				if b := post.Bid(sc.Op.AID, bidID); b == nil || b.Bidder != addrOf(sc.Op.Signer) || b.Amt.String() != sc.Op.Amt || b.Denom != sc.Op.Denom {
					bad("committed-record-differs/"+c.Method, "the committed bid differs from what the listeners were told")
				}
			}
		case "BeforeBidModified":
			old := pre.Bid(sc.Op.AID, sc.Op.BidID)
			wantArgs := fmt.Sprintf("%d|%d|%s|%d|%s|%s", sc.Op.AID, sc.Op.BidID, old.Bidder, old.Type, mustDec(sc.Op.Price), rawCoin(sc.Op.Denom, sc.Op.Amt))
			if c.Args != wantArgs {
				bad("wrong-arguments/"+c.Method, "listener %d got %q, the operation used %q", c.Listener, c.Args, wantArgs)
			}
			if b := v.Bid(sc.Op.AID, sc.Op.BidID); b == nil || b.Raw != old.Raw {
				bad("announced-change-already-committed/"+c.Method, "the stored bid already differs from the old one when %s is called", c.Method)
			}
		case "BeforeAllowedBiddersAdded":
			wantArgs := fmt.Sprintf("%d/%s/%s,", sc.Op.AID, addrOf(sc.Op.Bidder), sc.Op.Max)
			if c.Args != wantArgs {
				bad("wrong-arguments/"+c.Method, "listener %d got %q, the operation used %q", c.Listener, c.Args, wantArgs)
			}
			o, nw := pre.AllowedOf(sc.Op.AID, addrOf(sc.Op.Bidder)), v.AllowedOf(sc.Op.AID, addrOf(sc.Op.Bidder))
			if (o == nil) != (nw == nil) || (o != nil && o.Raw != nw.Raw) {
				bad("announced-change-already-committed/"+c.Method, "the allow-list entry is already written when %s is called", c.Method)
			}
		case "BeforeAllowedBidderUpdated":
			wantArgs := fmt.Sprintf("%d|%s|%s", sc.Op.AID, addrOf(sc.Op.Bidder), sc.Op.Max)
			if c.Args != wantArgs {
				bad("wrong-arguments/"+c.Method, "listener %d got %q, the operation used %q", c.Listener, c.Args, wantArgs)
			}
			o, nw := pre.AllowedOf(sc.Op.AID, addrOf(sc.Op.Bidder)), v.AllowedOf(sc.Op.AID, addrOf(sc.Op.Bidder))
			if o == nil || nw == nil || o.Raw != nw.Raw {
				bad("announced-change-already-committed/"+c.Method, "the allow-list entry is already updated when %s is called", c.Method)
			}
		case "BeforeSellingCoinsAllocated":
			// the auction being settled is named by the first argument
			var aid uint64
			fmt.Sscanf(c.Args, "%d|", &aid)
			a := pre.Auction(aid)
			if a == nil || a.Status != ref.StatusStarted {
				bad("wrong-arguments/"+c.Method, "listener %d was told about auction %d which is not an open auction", c.Listener, aid)
				break
			}
			if v.BalOf(a.SellAddr, a.SellDenom).Cmp(pre.BalOf(a.SellAddr, a.SellDenom)) != 0 {
				bad("announced-change-already-committed/"+c.Method, "selling coins have already left the escrow when %s is called", c.Method)
			}
			if !vetoed {
				trs := Transfers(res.Events)
				alloc := map[string]math.Int{}
				for k, q := range sellingReceipts(trs, a) {
					alloc[k] = math.NewIntFromBigInt(q)
				}
				refund := map[string]math.Int{}
				for k, q := range payingRefunds(trs, a) {
					refund[k] = math.NewIntFromBigInt(q)
				}
				wantArgs := fmt.Sprintf("%d|alloc{%s}|refund{%s}", a.ID, mapStr(alloc), mapStr(refund))
				if c.Args != wantArgs {
					bad("wrong-arguments/"+c.Method, "listener %d was told %q, the settlement transferred %q", c.Listener, c.Args, wantArgs)
				}
			}
		}
	}
	return vs
}

func firstNonEmpty(a, b string) string {
	if a != "" {
		return a
	}
	return b
}

// HookOrderProbe registers three recording listeners through the module's InvokeSetHooks (which
// ranges over a map of module names) on a fresh keeper and runs one creation; it returns the
// observed call sequence. Used by the iteration-order explorer (C14), where InvokeSetHooks' key
// order is under the scheduler's control.
func HookOrderProbe(w *world.World) (string, error) {
	var calls []hookCall
	hm := map[string]ftypes.FundraisingHooks{}
	for i := 0; i < 3; i++ {
		hm[fmt.Sprintf("mod%c", 'a'+i)] = &recListener{idx: i, w: w, calls: &calls}
	}
	k := keeperWith(w, w.App.BankKeeper, nil)
	if err := fmodule.InvokeSetHooks(&k, hm); err != nil {
		return "", err
	}
	_, res := applyWith(w, k, w.Base(), Op{Kind: "create_fixed", Signer: "auc1", StartPrice: "2", Sell: "10acoin", PayDenom: "bcoin", StartK: 1, EndK: 2})
	if !res.OK() {
		return "", res.Err
	}
	return callsStr(calls), nil
}
