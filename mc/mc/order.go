package mc

import (
	"encoding/json"
	"fmt"
	"os"
	"os/exec"
	"path/filepath"
	"sort"
	"strings"
	"sync"
	"time"

	"verif/mc/ref"
	"verif/mc/world"
)

// -------------------------------------------------------------------------------------------
// C14 — replay determinism under every iteration order of every map range (see cmd/maporder and
// cmd/fmcorder). This file holds the history catalogue and the parent-side driver.
// -------------------------------------------------------------------------------------------

type OrderHistory struct {
	Name string
	Cfg  world.Config
	Ops  []Op
}

func OrderHistories(tier string) []OrderHistory {
	cfg := world.Config{Balances: stdBalances(), Params: params("2bcoin", "1bcoin", 1)}
	allow := func(aid uint64, b, max string) Op { return Op{Kind: "add_allowed", AID: aid, Bidder: b, Max: max} }
	fixed := Op{Kind: "create_fixed", Signer: "auc1", StartPrice: "1", Sell: "10acoin", PayDenom: "bcoin", StartK: 0, EndK: 2, Sched: sched(3, 4)}
	batch := func(ext uint32) Op {
		return Op{Kind: "create_batch", Signer: "auc1", StartPrice: "1", MinPrice: "0.5", Sell: "10acoin", PayDenom: "bcoin", StartK: 0, EndK: 2, MaxExt: ext, Rate: "0.5"}
	}
	fb := func(aid uint64, b, denom, amt string) Op {
		return Op{Kind: "place", Signer: b, AID: aid, BidType: ref.BidFixed, Price: "1", Denom: denom, Amt: amt}
	}
	many := func(aid uint64, b, price, amt string) Op {
		return Op{Kind: "place", Signer: b, AID: aid, BidType: ref.BidMany, Price: price, Denom: "acoin", Amt: amt}
	}
	worth := func(aid uint64, b, price, amt string) Op {
		return Op{Kind: "place", Signer: b, AID: aid, BidType: ref.BidWorth, Price: price, Denom: "bcoin", Amt: amt}
	}
	blk := func(k int) Op { return Op{Kind: "block", K: k} }
	hs := []OrderHistory{
		{"fixed-2-bidders", cfg, []Op{fixed, allow(0, "bid1", "10"), allow(0, "bid2", "10"), fb(0, "bid1", "bcoin", "3"), fb(0, "bid2", "acoin", "2"), blk(2), blk(3)}},
		{"fixed-3-bidders", cfg, []Op{fixed, allow(0, "bid1", "10"), allow(0, "bid2", "10"), allow(0, "bid3", "10"), fb(0, "bid1", "bcoin", "3"), fb(0, "bid2", "acoin", "2"), fb(0, "bid3", "bcoin", "4"), blk(2), blk(4)}},
		{"batch-2-winners", cfg, []Op{batch(0), allow(0, "bid1", "10"), allow(0, "bid2", "10"), many(0, "bid1", "2", "4"), worth(0, "bid2", "2", "7"), blk(2)}},
		{"batch-3-bidders-two-winners-one-loser", cfg, []Op{batch(0), allow(0, "bid1", "10"), allow(0, "bid2", "10"), allow(0, "bid3", "10"), many(0, "bid1", "4", "4"), worth(0, "bid2", "2", "7"), many(0, "bid3", "1", "3"), blk(2)}},
		{"batch-3-bidders-extended-round", cfg, []Op{batch(1), allow(0, "bid1", "10"), allow(0, "bid2", "10"), allow(0, "bid3", "10"), many(0, "bid1", "2", "3"), worth(0, "bid2", "2", "5"), blk(2), many(0, "bid3", "3", "2"), blk(3)}},
		{"two-auctions-settling-in-one-block", cfg, []Op{fixed, batch(0), allow(0, "bid1", "10"), allow(0, "bid2", "10"), allow(1, "bid1", "10"), allow(1, "bid2", "10"), allow(1, "bid3", "10"),
			fb(0, "bid1", "bcoin", "3"), fb(0, "bid2", "acoin", "2"), many(1, "bid1", "2", "3"), worth(1, "bid2", "2", "5"), many(1, "bid3", "1", "4"), blk(2)}},
	}
	fixedEarly := Op{Kind: "create_fixed", Signer: "auc1", StartPrice: "1", Sell: "10acoin", PayDenom: "bcoin", StartK: 0, EndK: 2, Sched: sched(3, 4)}
	batchLate := Op{Kind: "create_batch", Signer: "auc1", StartPrice: "1", MinPrice: "0.5", Sell: "10acoin", PayDenom: "bcoin", StartK: 0, EndK: 3, MaxExt: 0, Rate: "0.5"}
	waiting := Op{Kind: "create_fixed", Signer: "auc2", StartPrice: "1", Sell: "5acoin", PayDenom: "bcoin", StartK: 3, EndK: 5}
	hs = append(hs,
		// auctions in DIFFERENT statuses acting in the same block (one releases an instalment, one settles)
		OrderHistory{"release-and-settlement-in-one-block", cfg, []Op{fixedEarly, batchLate, allow(0, "bid1", "10"), allow(0, "bid2", "10"), allow(1, "bid1", "10"), allow(1, "bid2", "10"),
			fb(0, "bid1", "bcoin", "3"), fb(0, "bid2", "acoin", "2"), many(1, "bid1", "2", "3"), worth(1, "bid2", "2", "5"), blk(2), blk(3), blk(4)}},
		OrderHistory{"opening-release-and-settlement-in-one-block", cfg, []Op{fixedEarly, batchLate, waiting, allow(0, "bid1", "10"), allow(1, "bid1", "10"), allow(1, "bid2", "10"),
			fb(0, "bid1", "bcoin", "3"), many(1, "bid1", "2", "3"), worth(1, "bid2", "2", "5"), blk(2), blk(3), blk(5)}},
		OrderHistory{"cancelled-finished-vesting-and-open-auctions-in-one-block", cfg, []Op{waiting, fixedEarly, batchLate, {Kind: "cancel", Signer: "auc2", AID: 0}, allow(1, "bid1", "10"), allow(2, "bid1", "10"),
			fb(1, "bid1", "bcoin", "3"), many(2, "bid1", "2", "3"), blk(2), blk(3), blk(4)}},
	)
	hs = append(hs,
		// creation messages that leave the start time out (valid: the auction opens at once)
		OrderHistory{"creations-without-start-time", cfg, []Op{
			{Kind: "create_fixed", Signer: "auc1", StartPrice: "1", Sell: "10acoin", PayDenom: "bcoin", ZeroStart: true, EndK: 2},
			{Kind: "create_batch", Signer: "auc1", StartPrice: "1", MinPrice: "0.5", Sell: "10acoin", PayDenom: "bcoin", ZeroStart: true, EndK: 2, MaxExt: 0, Rate: "0.5"},
			allow(0, "bid1", "10"), allow(1, "bid1", "10"), allow(1, "bid2", "10"), fb(0, "bid1", "bcoin", "3"), many(1, "bid1", "2", "3"), worth(1, "bid2", "2", "5"), blk(2)}},
		// settlements with at most one matched bid but several refunds
		OrderHistory{"batch-one-winner-two-losers", cfg, []Op{batch(0), allow(0, "bid1", "10"), allow(0, "bid2", "10"), allow(0, "bid3", "10"), many(0, "bid1", "4", "10"), worth(0, "bid2", "2", "7"), many(0, "bid3", "1", "3"), blk(2)}},
		OrderHistory{"batch-nothing-matched-three-refunds", cfg, []Op{batch(0), allow(0, "bid1", "10"), allow(0, "bid2", "10"), allow(0, "bid3", "10"), many(0, "bid1", "4", "6"), many(0, "bid2", "4", "6"), worth(0, "bid3", "4", "30"), blk(2)}},
	)
	hs = append(hs,
		// one AddAllowedBidders call carrying a list whose LAST entry is refused (cap above the offer), made by a
		// module that handles the error and keeps going: which entries were stored must not depend on the run
		OrderHistory{"allow-list-call-with-a-refused-entry", cfg, []Op{fixed,
			{Kind: "add_allowed", AID: 0, Bidder: "bid1", Max: "10", More: "bid2:10,bid3:10,out1:11", KeepOnError: true},
			fb(0, "bid1", "bcoin", "3"), fb(0, "bid2", "acoin", "2"), fb(0, "bid3", "bcoin", "1"), blk(2)}},
	)
	if tier == "thorough" {
		hs = append(hs,
			OrderHistory{"fixed-4-bidders", cfg, []Op{fixed, allow(0, "bid1", "10"), allow(0, "bid2", "10"), allow(0, "bid3", "10"), allow(0, "out1", "10"),
				fb(0, "bid1", "bcoin", "3"), fb(0, "bid2", "acoin", "2"), fb(0, "bid3", "bcoin", "2"), fb(0, "out1", "acoin", "1"), blk(2)}},
			OrderHistory{"batch-4-bidders", cfg, []Op{batch(0), allow(0, "bid1", "10"), allow(0, "bid2", "10"), allow(0, "bid3", "10"), allow(0, "out1", "10"),
				many(0, "bid1", "4", "2"), worth(0, "bid2", "2", "7"), many(0, "bid3", "1", "3"), worth(0, "out1", "3", "6"), blk(2)}},
			OrderHistory{"two-batch-auctions-4-bidders-one-block", cfg, []Op{batch(0), batch(0), allow(0, "bid1", "10"), allow(0, "bid2", "10"), allow(0, "bid3", "10"), allow(1, "bid1", "10"), allow(1, "bid2", "10"), allow(1, "out1", "10"), allow(1, "bid3", "10"),
				many(0, "bid1", "4", "2"), worth(0, "bid2", "2", "7"), many(0, "bid3", "1", "3"), many(1, "bid1", "2", "3"), worth(1, "bid2", "2", "5"), many(1, "bid3", "1", "4"), worth(1, "out1", "3", "6"), blk(2)}},
		)
	}
	return hs
}

func goEnv() []string {
	return append(os.Environ(), "GOFLAGS=-mod=mod", "GOPROXY=off", "GOSUMDB=off", "GOTOOLCHAIN=local")
}

type orderHistResult struct {
	Name        string      `json:"name"`
	Schedules   int         `json:"schedules"`
	Points      int         `json:"choice_points_in_canonical_run"`
	Sites       []string    `json:"sites"`
	Outcomes    int         `json:"distinct_outcomes"`
	Canonical   string      `json:"canonical_digest"`
	CappedSites []string    `json:"ranges_over_more_keys_than_permuted,omitempty"`
	Violations  []Violation `json:"violations,omitempty"`
}

// RunOrder is the Custom executor of the C14 plan.
func RunOrder(p *Plan, o ExecOpts) (*ExecOut, error) {
	start := time.Now()
	ev := &Evidence{PropertyID: p.Prop, Tier: p.Tier, Seed: o.Seed, Level: p.Level, Coverage: map[string]any{}, Assumptions: p.Assume}
	tmp, err := os.MkdirTemp("", "fmc-order-")
	if err != nil {
		return nil, err
	}
	defer os.RemoveAll(tmp)
	src := o.SrcRoot
	if src == "" {
		src = o.Root
	}
	mcDir := filepath.Join(src, "mc")
	binDir := filepath.Join(src, "bin")
	run := func(dir string, name string, args ...string) (string, error) {
		c := exec.Command(name, args...)
		c.Dir = dir
		c.Env = goEnv()
		out, err := c.CombinedOutput()
		return string(out), err
	}
	if out, err := run(mcDir, "go", "build", "-tags", "verif", "-o", filepath.Join(binDir, "maporder"), "./cmd/maporder"); err != nil {
		return nil, fmt.Errorf("building maporder: %v\n%s", err, out)
	}
	ovDir := filepath.Join(tmp, "ov")
	mout, err := run(mcDir, filepath.Join(binDir, "maporder"), "-repo", RepoDir(), "-out", ovDir)
	if err != nil {
		return nil, fmt.Errorf("maporder failed (a map iteration the rewriter cannot own?): %v\n%s", err, mout)
	}
	var sites []string
	if bz, err := os.ReadFile(filepath.Join(ovDir, "sites.json")); err == nil {
		json.Unmarshal(bz, &sites)
	}
	if out, err := run(mcDir, "go", "build", "-tags", "verif verif_order", "-overlay", filepath.Join(ovDir, "overlay.json"), "-o", filepath.Join(binDir, "fmcorder"), "./cmd/fmcorder"); err != nil {
		return nil, fmt.Errorf("building the overlay explorer: %v\n%s", err, out)
	}
	bound := 2
	if p.Tier == "thorough" {
		bound = 3
	}
	n := o.Workers
	nh := len(OrderHistories(p.Tier))
	if n > nh {
		n = nh
	}
	if n < 2 {
		n = 2
	}
	results := make([][]orderHistResult, n+1)
	errs := make([]error, n+1)
	var wg sync.WaitGroup
	// one more process runs only the canonical schedule of every history: its digests are compared with
	// the shards' ("... or of the process that runs it")
	wg.Add(1)
	go func() {
		defer wg.Done()
		c := exec.Command(filepath.Join(binDir, "fmcorder"), "-tier", p.Tier, "-canon-only")
		c.Env = goEnv()
		c.Stderr = os.Stderr
		out, err := c.Output()
		if err != nil {
			errs[n] = fmt.Errorf("canonical-only process: %v", err)
			return
		}
		lines := strings.Split(strings.TrimSpace(string(out)), "\n")
		if err := json.Unmarshal([]byte(lines[len(lines)-1]), &results[n]); err != nil {
			errs[n] = fmt.Errorf("canonical-only process output: %v", err)
		}
	}()
	for i := 0; i < n; i++ {
		wg.Add(1)
		go func(i int) {
			defer wg.Done()
			c := exec.Command(filepath.Join(binDir, "fmcorder"), "-tier", p.Tier, "-shard", fmt.Sprint(i), "-of", fmt.Sprint(n), "-bound", fmt.Sprint(bound))
			c.Env = goEnv()
			c.Stderr = os.Stderr
			out, err := c.Output()
			if err != nil {
				errs[i] = fmt.Errorf("shard %d: %v", i, err)
				return
			}
			lines := strings.Split(strings.TrimSpace(string(out)), "\n")
			if err := json.Unmarshal([]byte(lines[len(lines)-1]), &results[i]); err != nil {
				errs[i] = fmt.Errorf("shard %d output: %v", i, err)
			}
		}(i)
	}
	wg.Wait()
	for _, e := range errs {
		if e != nil {
			return nil, e
		}
	}
	var viol []Violation
	schedules, distinct := 0, 0
	byName := map[string]orderHistResult{}
	canon0 := map[string]int{}
	siteHit := map[string]bool{}
	var capped []string
	canonByHist := map[string]map[string]bool{}
	for _, rs := range results {
		for _, r := range rs {
			if canonByHist[r.Name] == nil {
				canonByHist[r.Name] = map[string]bool{}
			}
			canonByHist[r.Name][r.Canonical] = true
			if r.Name == OrderHistories(p.Tier)[0].Name {
				canon0[r.Canonical]++
			}
			if _, dup := byName[r.Name]; dup {
				continue
			}
			byName[r.Name] = r
			schedules += r.Schedules
			if r.Schedules > 1 {
				distinct += r.Schedules
			}
			viol = append(viol, r.Violations...)
			for _, s := range r.Sites {
				siteHit[s] = true
			}
			capped = append(capped, r.CappedSites...)
		}
	}
	crossChecked := 0
	for name, ds := range canonByHist {
		if len(ds) > 1 {
			viol = append(viol, Violation{Prop: "C14", Sig: "differs-between-processes", Detail: fmt.Sprintf("the same history %q executed with the same (canonical) iteration orders gives different events / state / balances in different processes", name)})
		}
		crossChecked++
	}
	ev.Coverage["histories_cross_checked_between_processes"] = crossChecked
	var names []string
	for k := range byName {
		names = append(names, k)
	}
	sort.Strings(names)
	var per []any
	var samples []any
	for _, k := range names {
		r := byName[k]
		per = append(per, map[string]any{"history": r.Name, "schedules": r.Schedules, "choice_points": r.Points, "sites": r.Sites, "distinct_outcomes": r.Outcomes})
	}
	for _, h := range OrderHistories(p.Tier)[:2] {
		samples = append(samples, map[string]any{"history": h.Name, "ops": opsStr(h.Ops)})
	}
	var unreached []string
	for _, s := range sites {
		if !siteHit[s] {
			unreached = append(unreached, s)
		}
	}
	ev.Coverage["evaluations"] = schedules
	ev.Coverage["distinct_nontrivial"] = distinct
	ev.Coverage["rule"] = p.Rule
	ev.Coverage["samples"] = samples
	ev.Coverage["exhaustive"] = true
	ev.Coverage["deviation_bound"] = bound
	ev.Coverage["histories"] = per
	ev.Coverage["map_iteration_sites_rewritten"] = sites
	ev.Coverage["sites_with_no_choice_point_in_any_history"] = unreached
	ev.Coverage["ranges_over_more_keys_than_permuted"] = capped
	ev.Coverage["worker_processes"] = n
	ev.Coverage["canonical_digest_agreement_across_processes"] = func() bool {
		for _, ds := range canonByHist {
			if len(ds) > 1 {
				return false
			}
		}
		return true
	}()
	ev.WallS = time.Since(start).Seconds()
	return Adjudicate(p, o, viol, ev)
}
