package mc

import (
	"fmt"
	"math/big"
	"regexp"
	"sort"
	"strings"

	sdk "github.com/cosmos/cosmos-sdk/types"

	"verif/mc/ref"
	"verif/mc/world"
)

// -------------------------------------------------------------------------------------------
// C18 — messages are accepted exactly under their documented preconditions (I5: the ValidateBasic
// rules plus the guards the statement names), and a rejected message changes nothing.
// The reference below is written from the statement / message documentation, over ref.State.
// -------------------------------------------------------------------------------------------

var reDenom = regexp.MustCompile(`^[a-zA-Z][a-zA-Z0-9/:._-]{2,127}$`)

func validAddr(s string) bool {
	_, err := sdk.AccAddressFromBech32(s) // bech32 syntax + prefix: SDK primitive, trusted
	return err == nil && s != ""
}

func splitCoin(s string) (denom string, amt *big.Int) {
	i := 0
	if i < len(s) && s[i] == '-' {
		i++
	}
	for i < len(s) && s[i] >= '0' && s[i] <= '9' {
		i++
	}
	amt, _ = new(big.Int).SetString(s[:i], 10)
	if amt == nil {
		amt = new(big.Int)
	}
	return s[i:], amt
}

func coinsValid(s string) bool { // sdk.Coins.Validate: valid denoms, positive amounts, strictly sorted
	if s == "" {
		return true
	}
	prev := ""
	for _, p := range strings.Split(s, ",") {
		d, a := splitCoin(p)
		if !reDenom.MatchString(d) || a.Sign() <= 0 {
			return false
		}
		if prev != "" && d <= prev {
			return false
		}
		prev = d
	}
	return true
}

func schedValid(sc []Sched, endK int) (bool, string) {
	if len(sc) == 0 {
		return true, ""
	}
	total := new(big.Rat)
	prev := -1 << 30
	for _, s := range sc {
		w := ref.R(s.W)
		if w.Sign() <= 0 {
			return false, "weight-not-positive"
		}
		if s.K <= endK {
			return false, "release-not-after-end"
		}
		if s.K <= prev {
			return false, "release-not-chronological"
		}
		if w.Cmp(big.NewRat(1, 1)) > 0 {
			return false, "weight-above-one"
		}
		total.Add(total, w)
		prev = s.K
	}
	if total.Cmp(big.NewRat(1, 1)) != 0 {
		return false, "weights-do-not-sum-to-one"
	}
	return true, ""
}

// Accepts is the reference decision for a transaction op in state s.
func Accepts(s *ref.State, op Op, govAuthority string) (bool, string) {
	switch op.Kind {
	case "create_fixed", "create_batch":
		if !validAddr(addrOf(op.Signer)) {
			return false, "bad-address"
		}
		if ref.R(op.StartPrice).Sign() <= 0 {
			return false, "start-price-not-positive"
		}
		if op.Kind == "create_batch" && ref.R(op.MinPrice).Sign() <= 0 {
			return false, "min-price-not-positive"
		}
		sd, sa := splitCoin(op.Sell)
		if !reDenom.MatchString(sd) || sa.Sign() < 0 {
			return false, "selling-coin-invalid"
		}
		if sa.Sign() == 0 {
			return false, "selling-amount-zero"
		}
		if sd == op.PayDenom {
			return false, "same-denoms"
		}
		if !reDenom.MatchString(op.PayDenom) {
			return false, "paying-denom-invalid"
		}
		if op.EndK <= op.StartK {
			return false, "end-not-after-start"
		}
		if op.Kind == "create_batch" && ref.R(op.Rate).Sign() <= 0 {
			return false, "rate-not-positive"
		}
		if ok, why := schedValid(op.Sched, op.EndK); !ok {
			return false, why
		}
		if s.Time.After(world.Instant(op.EndK)) {
			return false, "end-before-now"
		}
		if len(op.Sched) > 100 {
			return false, "too-many-instalments"
		}
		if op.Kind == "create_batch" && op.MaxExt > 30 {
			return false, "too-many-rounds"
		}
		need := addCoins(s.CreationFee, sd, sa)
		if !hasFunds(s, addrOf(op.Signer), need) {
			return false, "funds"
		}
		return true, "ok"
	case "cancel":
		if !validAddr(addrOf(op.Signer)) {
			return false, "bad-address"
		}
		a := s.Auction(op.AID)
		if a == nil {
			return false, "no-auction"
		}
		if a.Auctioneer != addrOf(op.Signer) {
			return false, "not-auctioneer"
		}
		if a.Status != ref.StatusStandBy {
			return false, "not-waiting"
		}
		return true, "ok"
	case "place":
		if !validAddr(addrOf(op.Signer)) {
			return false, "bad-address"
		}
		price, amt := ref.R(op.Price), big0(op.Amt)
		if price.Sign() <= 0 {
			return false, "price-not-positive"
		}
		if !reDenom.MatchString(op.Denom) || amt.Sign() < 0 {
			return false, "coin-invalid"
		}
		if amt.Sign() == 0 {
			return false, "amount-zero"
		}
		if op.BidType < 1 || op.BidType > 3 {
			return false, "bid-kind-invalid"
		}
		a := s.Auction(op.AID)
		if a == nil {
			return false, "no-auction"
		}
		if a.Status != ref.StatusStarted {
			return false, "not-open"
		}
		if a.Type == ref.TypeBatch && price.Cmp(a.MinBidPrice) < 0 {
			return false, "below-floor"
		}
		bidder := addrOf(op.Signer)
		al := s.AllowedOf(a.ID, bidder)
		if al == nil {
			return false, "not-listed"
		}
		if !hasFunds(s, bidder, s.BidFee) {
			return false, "funds-fee"
		}
		nb := &ref.Bid{Type: op.BidType, Price: price, Denom: op.Denom, Amt: amt}
		switch op.BidType {
		case ref.BidFixed:
			if a.Type != ref.TypeFixed {
				return false, "wrong-auction-type"
			}
			ok, why := FixedBidAccepts(s, a, bidder, op.BidType, price, op.Denom, amt)
			return ok, why
		case ref.BidWorth:
			if a.Type != ref.TypeBatch {
				return false, "wrong-auction-type"
			}
			if op.Denom != a.PayDenom {
				return false, "denom"
			}
			if ref.SellingAmount(nb, a.PayDenom).Cmp(al.Max) > 0 {
				return false, "allowance"
			}
		case ref.BidMany:
			if a.Type != ref.TypeBatch {
				return false, "wrong-auction-type"
			}
			if op.Denom != a.SellDenom {
				return false, "denom"
			}
			if amt.Cmp(al.Max) > 0 {
				return false, "allowance"
			}
		}
		need := addCoins(s.BidFee, a.PayDenom, ref.RequiredReservation(nb, a.PayDenom))
		if !hasFunds(s, bidder, need) {
			return false, "funds"
		}
		return true, "ok"
	case "modify":
		if !validAddr(addrOf(op.Signer)) {
			return false, "bad-address"
		}
		if ref.R(op.Price).Sign() <= 0 {
			return false, "price-not-positive"
		}
		if !reDenom.MatchString(op.Denom) || big0(op.Amt).Sign() < 0 {
			return false, "coin-invalid"
		}
		if big0(op.Amt).Sign() == 0 {
			return false, "amount-zero"
		}
		return ModifyAccepts(s, op)
	case "update_params":
		auth := op.Authority
		if auth == "gov" {
			auth = govAuthority
		} else {
			auth = addrOf(auth)
		}
		if !validAddr(auth) {
			return false, "bad-address"
		}
		if auth != govAuthority {
			return false, "not-authority"
		}
		if !coinsValid(op.CreationFee) || !coinsValid(op.BidFee) {
			return false, "fee-invalid"
		}
		if op.ExtPeriod > 3650 { // documented maximum of the extended period (days)
			return false, "period-too-large"
		}
		return true, "ok"
	}
	return false, "unknown-op"
}

type monC18 struct{ st *Stats }

func NewC18() Monitor           { return &monC18{st: NewStats()} }
func (m *monC18) Prop() string  { return "C18" }
func (m *monC18) Stats() *Stats { return m.st }

func balancesEqual(a, b *ref.State) bool {
	return len(Deltas(a, b)) == 0
}

func (m *monC18) OnTransition(t *Transition) []Violation {
	switch t.Op.Kind {
	case "create_fixed", "create_batch", "cancel", "place", "modify", "update_params":
	default:
		return nil
	}
	var vs []Violation
	want, why := Accepts(t.Pre, t.Op, GovAddr())
	got := t.Res.OK()
	tag := t.Op.Tag
	if tag == "" {
		tag = "menu"
	}
	m.st.Inc("decisions")
	m.st.Inc("decision/" + t.Op.Kind + "/" + why)
	m.st.Case("decision", t.Op.Kind+"|"+why+"|"+tag+"|"+opDigest(t.Op))
	if want != got {
		if want {
			vs = append(vs, Violation{Prop: "C18", Sig: "rejected-valid/" + t.Op.Kind, Detail: fmt.Sprintf("%v [%s] rejected with %q although every documented precondition holds", t.Op, tag, t.Res.ErrStr)})
		} else {
			vs = append(vs, Violation{Prop: "C18", Sig: "accepted-invalid/" + t.Op.Kind + "/" + why, Detail: fmt.Sprintf("%v [%s] accepted although: %s", t.Op, tag, why)})
		}
	}
	if !got {
		m.st.Inc("rejections_checked_for_side_effects")
		if t.Pre.RawModule != t.Post.RawModule {
			vs = append(vs, Violation{Prop: "C18", Sig: "rejected-but-module-state-changed/" + t.Op.Kind, Detail: fmt.Sprintf("%v rejected (%s) but the module store differs afterwards", t.Op, t.Res.ErrStr)})
		}
		if !balancesEqual(t.Pre, t.Post) {
			vs = append(vs, Violation{Prop: "C18", Sig: "rejected-but-balances-changed/" + t.Op.Kind, Detail: fmt.Sprintf("%v rejected (%s) but balances moved: %s", t.Op, t.Res.ErrStr, fmtDeltas(Deltas(t.Pre, t.Post)))})
		}
		for d := range unionDenoms(t.Pre.CommunityPool, t.Post.CommunityPool) {
			if ratOr0(t.Pre.CommunityPool[d]).Cmp(ratOr0(t.Post.CommunityPool[d])) != 0 {
				vs = append(vs, Violation{Prop: "C18", Sig: "rejected-but-community-pool-changed/" + t.Op.Kind, Detail: fmt.Sprintf("%v rejected but the community pool changed", t.Op)})
			}
		}
		if t.Op.Tag != "" {
			m.st.Sample(map[string]any{"op": t.Op.String(), "probe": t.Op.Tag, "reference": why, "error": t.Res.ErrStr})
		}
	}
	return vs
}

func opDigest(o Op) string {
	return fmt.Sprintf("%s|%d|%d|%d|%s|%s|%s|%s|%s|%s|%s|%d|%d|%v|%d|%s|%s|%s|%s", o.Signer, o.AID, o.BidID, o.BidType, o.Price, o.Denom, o.Amt,
		o.Sell, o.PayDenom, o.StartPrice, o.MinPrice, o.StartK, o.EndK, o.Sched, o.MaxExt, o.Rate, o.CreationFee, o.BidFee, o.Authority)
}

// ---- probe generation: one invalid (or boundary) value per field, thorough: all pairs ----

type mutation struct {
	field string
	tag   string
	apply func(o *Op)
}

func manySched(n, endK int) []Sched {
	// n equal-ish weights summing to exactly one, releases after endK
	out := make([]Sched, n)
	w := new(big.Rat).SetFrac(big.NewInt(1), big.NewInt(int64(n)))
	ws := w.FloatString(18) // truncated to 18 decimals? FloatString rounds; recompute the last
	sum := new(big.Rat)
	for i := 0; i < n; i++ {
		out[i] = Sched{K: endK + 1 + i, W: ws}
		if i < n-1 {
			sum.Add(sum, ref.R(ws))
		}
	}
	last := new(big.Rat).Sub(big.NewRat(1, 1), sum)
	out[n-1].W = last.FloatString(18)
	return out
}

func createMutations(batch bool, curK int) []mutation {
	ms := []mutation{
		{"signer", "empty-address", func(o *Op) { o.Signer = "" }},
		{"signer", "malformed-address", func(o *Op) { o.Signer = "cosmos1notanaddress" }},
		{"signer", "poor-signer", func(o *Op) { o.Signer = "donor" }},
		{"start_price", "zero", func(o *Op) { o.StartPrice = "0" }},
		{"start_price", "negative", func(o *Op) { o.StartPrice = "-1" }},
		{"start_price", "smallest", func(o *Op) { o.StartPrice = "0.000000000000000001" }},
		{"sell", "zero-amount", func(o *Op) { o.Sell = "0acoin" }},
		{"sell", "negative-amount", func(o *Op) { o.Sell = "-5acoin" }},
		{"sell", "invalid-denom", func(o *Op) { o.Sell = "5a" }},
		{"sell", "more-than-owned", func(o *Op) { o.Sell = "1000acoin" }},
		{"pay_denom", "same-as-selling", func(o *Op) { o.PayDenom = "acoin" }},
		{"pay_denom", "invalid", func(o *Op) { o.PayDenom = "b" }},
		{"pay_denom", "empty", func(o *Op) { o.PayDenom = "" }},
		{"times", "end-equals-start", func(o *Op) { o.EndK = o.StartK }},
		{"times", "end-before-start", func(o *Op) { o.StartK = o.EndK + 1 }},
		{"times", "end-before-now", func(o *Op) { o.StartK = -2; o.EndK = -1 }},
		{"times", "end-equals-now", func(o *Op) { o.StartK = curK - 1; o.EndK = curK }},
		{"sched", "101-instalments", func(o *Op) { o.Sched = manySched(101, o.EndK) }},
		{"sched", "100-instalments", func(o *Op) { o.Sched = manySched(100, o.EndK) }},
		{"sched", "weights-below-one", func(o *Op) { o.Sched = []Sched{{K: o.EndK + 1, W: "0.5"}, {K: o.EndK + 2, W: "0.4"}} }},
		{"sched", "weights-above-one", func(o *Op) { o.Sched = []Sched{{K: o.EndK + 1, W: "0.5"}, {K: o.EndK + 2, W: "0.6"}} }},
		{"sched", "zero-weight", func(o *Op) { o.Sched = []Sched{{K: o.EndK + 1, W: "0"}, {K: o.EndK + 2, W: "1"}} }},
		{"sched", "negative-weight", func(o *Op) { o.Sched = []Sched{{K: o.EndK + 1, W: "-0.5"}, {K: o.EndK + 2, W: "1.5"}} }},
		{"sched", "weight-above-one", func(o *Op) { o.Sched = []Sched{{K: o.EndK + 1, W: "1.5"}, {K: o.EndK + 2, W: "-0.5"}} }},
		{"sched", "unordered", func(o *Op) { o.Sched = []Sched{{K: o.EndK + 2, W: "0.5"}, {K: o.EndK + 1, W: "0.5"}} }},
		{"sched", "duplicate-time", func(o *Op) { o.Sched = []Sched{{K: o.EndK + 1, W: "0.5"}, {K: o.EndK + 1, W: "0.5"}} }},
		{"sched", "release-at-end", func(o *Op) { o.Sched = []Sched{{K: o.EndK, W: "1"}} }},
		{"sched", "valid-single", func(o *Op) { o.Sched = []Sched{{K: o.EndK + 1, W: "1"}} }},
	}
	if batch {
		ms = append(ms,
			mutation{"min_price", "zero", func(o *Op) { o.MinPrice = "0" }},
			mutation{"min_price", "negative", func(o *Op) { o.MinPrice = "-1" }},
			mutation{"max_ext", "31", func(o *Op) { o.MaxExt = 31 }},
			mutation{"max_ext", "30", func(o *Op) { o.MaxExt = 30 }},
			mutation{"rate", "zero", func(o *Op) { o.Rate = "0" }},
			mutation{"rate", "negative", func(o *Op) { o.Rate = "-0.5" }},
			mutation{"rate", "above-one", func(o *Op) { o.Rate = "2" }},
			mutation{"rate", "zero-and-no-extension-round", func(o *Op) { o.Rate = "0"; o.MaxExt = 0 }},
		)
	}
	return ms
}

func bidMutations(a *ref.Auction) []mutation {
	other := a.SellDenom
	return []mutation{
		{"signer", "empty-address", func(o *Op) { o.Signer = "" }},
		{"signer", "malformed-address", func(o *Op) { o.Signer = "cosmos1notanaddress" }},
		{"signer", "not-listed", func(o *Op) { o.Signer = "out1" }},
		{"price", "zero", func(o *Op) { o.Price = "0" }},
		{"price", "negative", func(o *Op) { o.Price = "-1" }},
		{"price", "below-floor-or-off-price", func(o *Op) { o.Price = "0.000000000000000001" }},
		{"price", "above", func(o *Op) { o.Price = "7" }},
		{"coin", "zero-amount", func(o *Op) { o.Amt = "0" }},
		{"coin", "negative-amount", func(o *Op) { o.Amt = "-1" }},
		{"coin", "invalid-denom", func(o *Op) { o.Denom = "x" }},
		{"coin", "third-denom", func(o *Op) { o.Denom = "fcoin" }},
		{"coin", "other-auction-denom", func(o *Op) {
			if o.Denom == other {
				o.Denom = a.PayDenom
			} else {
				o.Denom = other
			}
		}},
		{"coin", "more-than-owned", func(o *Op) { o.Amt = "100000" }},
		{"coin", "over-cap-or-remainder", func(o *Op) { o.Amt = "11" }},
		{"bid_type", "nil", func(o *Op) { o.BidType = 0 }},
		{"bid_type", "unknown", func(o *Op) { o.BidType = 4 }},
		{"bid_type", "fixed", func(o *Op) { o.BidType = ref.BidFixed }},
		{"bid_type", "worth", func(o *Op) { o.BidType = ref.BidWorth }},
		{"bid_type", "many", func(o *Op) { o.BidType = ref.BidMany }},
		{"auction", "unknown-id", func(o *Op) { o.AID = 99 }},
	}
}

// Probes returns the probe ops of state st. pairs=true adds every pair of mutations of different fields.
func Probes(st *ref.State, pairs bool) []Op {
	var out []Op
	curK := KOf(st.Time)
	emit := func(base Op, ms []mutation) {
		for i, m := range ms {
			o := base
			m.apply(&o)
			o.Tag = m.field + "=" + m.tag
			o.Budget = "probe"
			out = append(out, o)
			if pairs {
				for _, m2 := range ms[i+1:] {
					if m2.field == m.field {
						continue
					}
					o2 := base
					m.apply(&o2)
					m2.apply(&o2)
					o2.Tag = m.field + "=" + m.tag + "&" + m2.field + "=" + m2.tag
					o2.Budget = "probe"
					out = append(out, o2)
				}
			}
		}
	}
	// creations by auc2 (not otherwise active, so that funds are known)
	if st.NextAuctionID < 3 {
		emit(Op{Kind: "create_fixed", Signer: "auc2", StartPrice: "2", Sell: "5acoin", PayDenom: "bcoin", StartK: curK + 1, EndK: curK + 2}, createMutations(false, curK))
		emit(Op{Kind: "create_batch", Signer: "auc2", StartPrice: "2", MinPrice: "1", Sell: "5acoin", PayDenom: "bcoin", StartK: curK + 1, EndK: curK + 2, MaxExt: 1, Rate: "0.5"}, createMutations(true, curK))
	}
	for _, a := range st.Auctions {
		// a well-formed bid by the first allow-listed bidder (or bid1)
		signer := "bid1"
		if len(st.Allowed[a.ID]) > 0 {
			signer = world.NameOf(st.Allowed[a.ID][0].Bidder)
		}
		if a.Status == ref.StatusStarted || a.Status == ref.StatusStandBy {
			var base Op
			if a.Type == ref.TypeFixed {
				base = Op{Kind: "place", Signer: signer, AID: a.ID, BidType: ref.BidFixed, Price: ratStr(a.StartPrice), Denom: a.PayDenom, Amt: "2"}
			} else {
				base = Op{Kind: "place", Signer: signer, AID: a.ID, BidType: ref.BidMany, Price: ratStr(a.StartPrice), Denom: a.SellDenom, Amt: "1"}
			}
			emit(base, bidMutations(a))
		}
		// cancel probes
		for _, sg := range []string{"", "cosmos1notanaddress", "out1"} {
			out = append(out, Op{Kind: "cancel", Signer: sg, AID: a.ID, Tag: "signer=" + sg, Budget: "probe"})
		}
		// modification probes on the first bid
		if bs := st.Bids[a.ID]; len(bs) > 0 && a.Status == ref.StatusStarted {
			b := bs[0]
			base := Op{Kind: "modify", Signer: world.NameOf(b.Bidder), AID: a.ID, BidID: b.ID, Price: ratStr(new(big.Rat).Add(b.Price, big.NewRat(1, 1))), Denom: b.Denom, Amt: new(big.Int).Add(b.Amt, big.NewInt(1)).String()}
			emit(base, []mutation{
				{"signer", "empty-address", func(o *Op) { o.Signer = "" }},
				{"signer", "malformed-address", func(o *Op) { o.Signer = "cosmos1notanaddress" }},
				{"price", "zero", func(o *Op) { o.Price = "0" }},
				{"price", "negative", func(o *Op) { o.Price = "-1" }},
				{"coin", "zero-amount", func(o *Op) { o.Amt = "0" }},
				{"coin", "negative-amount", func(o *Op) { o.Amt = "-1" }},
				{"coin", "invalid-denom", func(o *Op) { o.Denom = "x" }},
				{"coin", "more-than-owned", func(o *Op) { o.Amt = "100000" }},
				{"auction", "unknown-id", func(o *Op) { o.AID = 99 }},
				{"bid", "unknown-id", func(o *Op) { o.BidID = 99 }},
			})
		}
	}
	out = append(out, Op{Kind: "cancel", Signer: "auc1", AID: 99, Tag: "auction=unknown-id", Budget: "probe"})
	// params
	for _, p := range []Op{
		{Authority: "gov", CreationFee: "2bcoin", BidFee: "1bcoin", ExtPeriod: 1, Tag: "valid"},
		{Authority: "gov", CreationFee: "", BidFee: "", ExtPeriod: 0, Tag: "valid-empty-fees"},
		{Authority: "auc1", CreationFee: "2bcoin", BidFee: "", ExtPeriod: 1, Tag: "authority=user"},
		{Authority: "cosmos1notanaddress", CreationFee: "2bcoin", BidFee: "", ExtPeriod: 1, Tag: "authority=malformed"},
		{Authority: "gov", CreationFee: "0bcoin", BidFee: "", ExtPeriod: 1, Tag: "creation_fee=zero-amount"},
		{Authority: "gov", CreationFee: "2bcoin,1acoin", BidFee: "", ExtPeriod: 1, Tag: "creation_fee=unsorted"},
		{Authority: "gov", CreationFee: "2bcoin", BidFee: "1bcoin,1bcoin", ExtPeriod: 1, Tag: "bid_fee=duplicate"},
		{Authority: "gov", CreationFee: "2bcoin", BidFee: "-1bcoin", ExtPeriod: 1, Tag: "bid_fee=negative"},
		{Authority: "gov", CreationFee: "2b", BidFee: "", ExtPeriod: 1, Tag: "creation_fee=invalid-denom"},
		{Authority: "gov", CreationFee: "", BidFee: "", ExtPeriod: 3650, Tag: "extended_period=maximum"},
		{Authority: "gov", CreationFee: "", BidFee: "", ExtPeriod: 3651, Tag: "extended_period=above-maximum"},
		{Authority: "gov", CreationFee: "", BidFee: "", ExtPeriod: 4294967295, Tag: "extended_period=max-uint32"},
	} {
		p.Kind = "update_params"
		p.Budget = "probe"
		out = append(out, p)
	}
	sort.SliceStable(out, func(i, j int) bool { return false })
	return out
}
