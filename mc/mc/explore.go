package mc

import (
	"encoding/json"
	"fmt"
	"os"
	"sort"
	"strconv"
	"sync"
	"sync/atomic"
	"time"

	sdk "github.com/cosmos/cosmos-sdk/types"

	"verif/mc/ref"
	"verif/mc/world"
)

// Budget is the vector of scarce-op budgets left (deviation bounds, not depth).
type Budget map[string]int

func (b Budget) clone() Budget {
	c := Budget{}
	for k, v := range b {
		c[k] = v
	}
	return c
}

func (b Budget) key() string {
	ks := make([]string, 0, len(b))
	for k := range b {
		ks = append(ks, k)
	}
	sort.Strings(ks)
	s := ""
	for _, k := range ks {
		s += fmt.Sprintf("%s=%d;", k, b[k])
	}
	return s
}

// Scenario is a closed system: genesis, a fixed real-op preamble, budgets and a state-dependent menu.
type Scenario struct {
	Name     string
	Cfg      world.Config
	Preamble []Op
	Budget   Budget
	// Menu returns the enabled ops in state st with budgets bud, simplest first.
	Menu func(st *ref.State, bud Budget) []Op
	// Params is a free-form description recorded in replays/evidence.
	Params map[string]any
	al     *Alphabet
	Tags   map[string]bool
}

// Transition is one explored edge, handed to monitors.
type Transition struct {
	Scen    *Scenario
	W       *world.World
	Pre     *ref.State
	Op      Op
	Res     *Result
	Post    *ref.State
	PreCtx  sdk.Context
	PostCtx sdk.Context
	hist    *histNode
}

func (t *Transition) History() []Op { return t.hist.list() }

type histNode struct {
	op     Op
	parent *histNode
	depth  int
}

func (h *histNode) list() []Op {
	if h == nil {
		return nil
	}
	out := make([]Op, h.depth)
	for n := h; n != nil; n = n.parent {
		out[n.depth-1] = n.op
	}
	return out
}

func (h *histNode) push(op Op) *histNode {
	d := 1
	if h != nil {
		d = h.depth + 1
	}
	return &histNode{op: op, parent: h, depth: d}
}

// Violation is one failed predicate on one transition.
type Violation struct {
	Prop   string `json:"property"`
	Sig    string `json:"signature"` // predicate / call site / input class: matched against known findings
	Detail string `json:"detail"`
	Scen   string `json:"scenario"`
	Hist   []Op   `json:"history"`
}

// Monitor checks one property on every transition. Monitors are per-worker (no locking needed);
// their statistics are merged at the end.
type Monitor interface {
	Prop() string
	OnTransition(t *Transition) []Violation
	Stats() *Stats
}

// Stats are the measured coverage counters of a monitor.
type Stats struct {
	Counters map[string]int64
	Distinct map[string]map[string]struct{} // class -> set of case digests (distinct non-trivial cases)
	Samples  []any
}

func NewStats() *Stats {
	return &Stats{Counters: map[string]int64{}, Distinct: map[string]map[string]struct{}{}}
}

func (s *Stats) Inc(k string) { s.Counters[k]++ }
func (s *Stats) Case(class, digest string) {
	m, ok := s.Distinct[class]
	if !ok {
		m = map[string]struct{}{}
		s.Distinct[class] = m
	}
	m[digest] = struct{}{}
}
func (s *Stats) Sample(x any) {
	if len(s.Samples) < 6 {
		s.Samples = append(s.Samples, x)
	}
}
func (s *Stats) Merge(o *Stats) {
	for k, v := range o.Counters {
		s.Counters[k] += v
	}
	for c, m := range o.Distinct {
		for d := range m {
			s.Case(c, d)
		}
	}
	for _, x := range o.Samples {
		s.Sample(x)
	}
}
func (s *Stats) DistinctTotal() int64 {
	var n int64
	for _, m := range s.Distinct {
		n += int64(len(m))
	}
	return n
}

// ---- visited set ----
//
// A state is keyed without its budgets. It is (re-)expanded only when it is reached with a budget
// vector that is not dominated (component-wise <=) by one it was already expanded with: everything
// reachable with the smaller budgets is reachable with the larger ones, and all oracles are
// transition-local, so the dominated visit can add nothing.

type visited struct {
	shards [64]struct {
		mu sync.Mutex
		m  map[[32]byte][][]int8
	}
	n     atomic.Int64
	names []string
}

func newVisited(b Budget) *visited {
	v := &visited{}
	for i := range v.shards {
		v.shards[i].m = map[[32]byte][][]int8{}
	}
	for k := range b {
		v.names = append(v.names, k)
	}
	sort.Strings(v.names)
	return v
}

func (v *visited) vec(b Budget) []int8 {
	out := make([]int8, len(v.names))
	for i, k := range v.names {
		out[i] = int8(b[k])
	}
	return out
}

func dominates(a, b []int8) bool { // a >= b component-wise
	for i := range a {
		if a[i] < b[i] {
			return false
		}
	}
	return true
}

// add reports whether the state must be expanded with budget b.
func (v *visited) add(k [32]byte, b Budget) bool {
	vec := v.vec(b)
	s := &v.shards[k[0]%64]
	s.mu.Lock()
	defer s.mu.Unlock()
	old, ok := s.m[k]
	for _, o := range old {
		if dominates(o, vec) {
			return false
		}
	}
	// drop vectors the new one dominates
	kept := old[:0]
	for _, o := range old {
		if !dominates(vec, o) {
			kept = append(kept, o)
		}
	}
	s.m[k] = append(kept, vec)
	if !ok {
		v.n.Add(1)
	}
	return true
}

// ---- exploration ----

type RunOpts struct {
	Workers     int
	Deadline    time.Time // zero = none
	NewMonitors func() []Monitor
	Seed        int
	PrefixDepth int
	MaxViol     int
	TermsCap    int
}

type RunResult struct {
	Scenario    string
	States      int64
	Transitions int64
	Rejected    int64
	MaxDepth    int
	Exhaustive  bool
	Violations  []Violation
	ViolCount   map[string]int64 // by prop/sig
	Stats       map[string]*Stats
	OpKinds     map[string]int64
	Outcomes    map[string]int64 // distinct accept/reject reasons etc.
	Samples     [][]string
	Wall        float64
	SelfCheck   string
	Terminals   [][]Op // maximal histories (capped), for ABCI replay
}

type worker struct {
	id    int
	w     *world.World
	mons  []Monitor
	e     *explorer
	trans int64
	rej   int64
	maxD  int
	kinds map[string]int64
	outc  map[string]int64
	terms [][]Op
}

type explorer struct {
	sc       *Scenario
	opts     RunOpts
	vis      *visited
	mu       sync.Mutex
	viol     []Violation
	violCnt  map[string]int64
	stop     atomic.Bool
	samples  [][]string
	capped   atomic.Bool
	termsCap int
	hang     *Violation
}

// hangAfter is the watchdog delay of one transition.
var hangAfter = func() time.Duration {
	if v := os.Getenv("VERIF_HANG_S"); v != "" {
		if n, err := strconv.Atoi(v); err == nil && n > 0 {
			return time.Duration(n) * time.Second
		}
	}
	return 120 * time.Second
}()

type node struct {
	ctx  sdk.Context
	st   *ref.State
	bud  Budget
	hist *histNode
}

func (e *explorer) report(vs []Violation, t *Transition) {
	if len(vs) == 0 {
		return
	}
	e.mu.Lock()
	defer e.mu.Unlock()
	for _, v := range vs {
		key := v.Prop + "|" + v.Sig
		e.violCnt[key]++
		if e.violCnt[key] == 1 {
			v.Scen = e.sc.Name
			v.Hist = append(append([]Op{}, e.sc.Preamble...), t.History()...)
			e.viol = append(e.viol, v)
		} else {
			// keep the shortest history per signature
			for i := range e.viol {
				if e.viol[i].Prop == v.Prop && e.viol[i].Sig == v.Sig {
					h := t.History()
					if len(h)+len(e.sc.Preamble) < len(e.viol[i].Hist) {
						v.Scen = e.sc.Name
						v.Hist = append(append([]Op{}, e.sc.Preamble...), h...)
						e.viol[i] = v
					}
				}
			}
		}
	}
}

// step executes op from n and runs the monitors; returns the child node or nil when the op was
// rejected (state unchanged; not recursed into).
func (wk *worker) step(n *node, op Op) (*node, *Transition) {
	e := wk.e
	cctx, _ := n.ctx.CacheContext()
	cctx = cctx.WithEventManager(sdk.NewEventManager())
	// watchdog: a handler or block hook that has not returned after hangAfter (five orders of magnitude
	// above the measured cost of a transition) is reported as a hang; the run cannot continue (the
	// goroutine is stuck inside the application), so the explorer stops.
	var pctx sdk.Context
	var res Result
	done := make(chan struct{})
	go func() {
		defer close(done)
		pctx, res = op.Apply(wk.w, cctx)
	}()
	select {
	case <-done:
	case <-time.After(hangAfter):
		h := append(append([]Op{}, e.sc.Preamble...), n.hist.push(op).list()...)
		e.mu.Lock()
		if e.hang == nil {
			e.hang = &Violation{Prop: "C07", Sig: "hang/" + op.Kind, Scen: e.sc.Name, Hist: h,
				Detail: fmt.Sprintf("%v has not returned after %s (a transition normally takes well under a millisecond)", op, hangAfter)}
		}
		e.mu.Unlock()
		e.stop.Store(true)
		return nil, nil
	}
	post, err := wk.w.Snapshot(pctx)
	if err != nil {
		panic(fmt.Sprintf("snapshot failed after %v: %v", op, err))
	}
	wk.trans++
	wk.kinds[op.Kind]++
	t := &Transition{Scen: e.sc, W: wk.w, Pre: n.st, Op: op, Res: &res, Post: post, PreCtx: n.ctx, PostCtx: pctx, hist: n.hist.push(op)}
	// A restart from the exported state is not an operation of the module: no property speaks about the
	// step itself (C15 has its own, stronger treatment); the monitors judge what happens afterwards.
	if op.Kind != "reimport" {
		for _, m := range wk.mons {
			e.report(m.OnTransition(t), t)
		}
	}
	oc := op.Kind + ":ok"
	if !res.OK() {
		oc = op.Kind + ":" + classifyErr(res.ErrStr)
	}
	wk.outc[oc]++
	isBlock := op.Kind == "block" || op.Kind == "tick"
	if !res.OK() && !isBlock {
		wk.rej++
		return nil, t
	}
	bud := n.bud
	if op.Budget != "" {
		bud = n.bud.clone()
		bud[op.Budget]--
	}
	return &node{ctx: pctx, st: post, bud: bud, hist: t.hist}, t
}

func classifyErr(s string) string {
	if len(s) > 60 {
		s = s[len(s)-60:]
	}
	return s
}

func (wk *worker) dfs(n *node) {
	e := wk.e
	if e.stop.Load() {
		return
	}
	if !e.opts.Deadline.IsZero() && time.Now().After(e.opts.Deadline) {
		e.capped.Store(true)
		e.stop.Store(true)
		return
	}
	d := 0
	if n.hist != nil {
		d = n.hist.depth
	}
	if d > wk.maxD {
		wk.maxD = d
	}
	ops := e.sc.Menu(n.st, n.bud)
	expanded := false
	for _, op := range ops {
		if e.stop.Load() {
			return
		}
		if op.Budget != "" && n.bud[op.Budget] <= 0 {
			continue
		}
		child, _ := wk.step(n, op)
		if child == nil {
			continue
		}
		expanded = true
		if e.vis.add(world.StateKey(child.st, ""), child.bud) {
			wk.dfs(child)
		}
		if e.stop.Load() {
			return
		}
	}
	if !expanded && len(wk.terms) < e.termsCap {
		wk.terms = append(wk.terms, n.hist.list())
	}
}

// replay re-executes a list of ops from a fresh base branch, returning the final node. Monitors are
// not run. An op whose outcome class (accepted / rejected) differs from expectAccepted aborts.
func replayOps(w *world.World, sc *Scenario, ops []Op, mons []Monitor) (*node, []Violation, error) {
	ctx := w.Base()
	st, err := w.Snapshot(ctx)
	if err != nil {
		return nil, nil, err
	}
	n := &node{ctx: ctx, st: st, bud: Budget{}}
	var last []Violation
	for i, op := range ops {
		cctx, _ := n.ctx.CacheContext()
		cctx = cctx.WithEventManager(sdk.NewEventManager())
		pctx, res := op.Apply(w, cctx)
		post, err := w.Snapshot(pctx)
		if err != nil {
			return nil, nil, err
		}
		t := &Transition{Scen: sc, W: w, Pre: n.st, Op: op, Res: &res, Post: post, PreCtx: n.ctx, PostCtx: pctx, hist: n.hist.push(op)}
		last = nil
		if op.Kind != "reimport" {
			for _, m := range mons {
				last = append(last, m.OnTransition(t)...)
			}
		}
		_ = i
		n = &node{ctx: pctx, st: post, bud: n.bud, hist: t.hist}
	}
	return n, last, nil
}

// Run explores the scenario exhaustively within its budgets.
func Run(sc *Scenario, opts RunOpts) (*RunResult, error) {
	start := time.Now()
	if opts.Workers <= 0 {
		opts.Workers = 1
	}
	if opts.PrefixDepth <= 0 {
		opts.PrefixDepth = 2
	}
	e := &explorer{sc: sc, opts: opts, vis: newVisited(sc.Budget), violCnt: map[string]int64{}, termsCap: 64}
	if opts.TermsCap > 0 {
		e.termsCap = opts.TermsCap
	}

	// worlds are built sequentially (SDK construction is not guaranteed thread-safe), used in parallel
	workers := make([]*worker, opts.Workers)
	for i := range workers {
		w, err := world.New(sc.Cfg)
		if err != nil {
			return nil, err
		}
		workers[i] = &worker{id: i, w: w, mons: opts.NewMonitors(), e: e, kinds: map[string]int64{}, outc: map[string]int64{}}
	}

	// root: preamble on worker 0, then breadth-first expansion to PrefixDepth collecting prefixes
	w0 := workers[0]
	root, _, err := replayOps(w0.w, sc, sc.Preamble, nil)
	if err != nil {
		return nil, err
	}
	root.bud = sc.Budget.clone()
	root.hist = nil
	e.vis.add(world.StateKey(root.st, ""), root.bud)

	// determinism self-check: the preamble (or an empty history) replayed twice gives the same key
	r2, _, err := replayOps(workers[len(workers)-1].w, sc, sc.Preamble, nil)
	if err != nil {
		return nil, err
	}
	selfCheck := "ok"
	if err := w0.w.CheckBalanceReads(root.ctx, root.st); err != nil {
		return nil, err
	}
	if world.StateKey(r2.st, "") != world.StateKey(root.st, "") {
		return nil, fmt.Errorf("determinism self-check failed: preamble replay differs between worlds")
	}

	frontier := []*node{root}
	for depth := 0; depth < opts.PrefixDepth; depth++ {
		var next []*node
		for _, n := range frontier {
			ops := sc.Menu(n.st, n.bud)
			expanded := false
			for _, op := range ops {
				if e.stop.Load() {
					break
				}
				if op.Budget != "" && n.bud[op.Budget] <= 0 {
					continue
				}
				child, _ := w0.step(n, op)
				if child == nil {
					continue
				}
				expanded = true
				if e.vis.add(world.StateKey(child.st, ""), child.bud) {
					next = append(next, child)
				}
			}
			if !expanded && len(w0.terms) < e.termsCap {
				w0.terms = append(w0.terms, n.hist.list())
			}
		}
		frontier = next
		if len(frontier) == 0 {
			break
		}
	}
	// rotate by seed: only changes which part is covered first under a time cap
	if len(frontier) > 0 && opts.Seed != 0 {
		k := opts.Seed % len(frontier)
		if k < 0 {
			k += len(frontier)
		}
		frontier = append(frontier[k:], frontier[:k]...)
	}
	queue := make(chan []Op, len(frontier))
	for _, n := range frontier {
		queue <- n.hist.list()
	}
	close(queue)
	// budgets after a prefix are recomputed by replay (deterministic): carry them alongside
	budOf := func(ops []Op) Budget {
		b := sc.Budget.clone()
		for _, op := range ops {
			if op.Budget != "" {
				b[op.Budget]--
			}
		}
		return b
	}

	var wg sync.WaitGroup
	var firstErr atomic.Value
	for _, wk := range workers {
		wg.Add(1)
		go func(wk *worker) {
			defer wg.Done()
			defer func() {
				if r := recover(); r != nil {
					firstErr.Store(fmt.Errorf("worker %d: %v", wk.id, r))
					e.stop.Store(true)
				}
			}()
			for ops := range queue {
				if e.stop.Load() {
					e.capped.Store(true)
					continue
				}
				full := append(append([]Op{}, sc.Preamble...), ops...)
				n, _, err := replayOps(wk.w, sc, full, nil)
				if err != nil {
					firstErr.Store(err)
					e.stop.Store(true)
					return
				}
				// rebuild history chain without the preamble
				var h *histNode
				for _, op := range ops {
					h = h.push(op)
				}
				n.hist = h
				n.bud = budOf(ops)
				wk.dfs(n)
			}
		}(wk)
	}
	wg.Wait()
	if err, ok := firstErr.Load().(error); ok && err != nil {
		return nil, err
	}
	if e.hang != nil {
		e.capped.Store(true)
		e.viol = append(e.viol, *e.hang)
		e.violCnt[e.hang.Prop+"|"+e.hang.Sig]++
	}

	rr := &RunResult{Scenario: sc.Name, States: e.vis.n.Load(), Exhaustive: !e.capped.Load(), Violations: e.viol,
		ViolCount: e.violCnt, Stats: map[string]*Stats{}, OpKinds: map[string]int64{}, Outcomes: map[string]int64{}, SelfCheck: selfCheck}
	for _, wk := range workers {
		rr.Transitions += wk.trans
		rr.Rejected += wk.rej
		if wk.maxD > rr.MaxDepth {
			rr.MaxDepth = wk.maxD
		}
		for k, v := range wk.kinds {
			rr.OpKinds[k] += v
		}
		for k, v := range wk.outc {
			rr.Outcomes[k] += v
		}
		for _, m := range wk.mons {
			s, ok := rr.Stats[m.Prop()]
			if !ok {
				s = NewStats()
				rr.Stats[m.Prop()] = s
			}
			s.Merge(m.Stats())
		}
		for _, t := range wk.terms {
			if len(rr.Terminals) < 256 || opts.TermsCap > 0 {
				rr.Terminals = append(rr.Terminals, t)
			}
		}
	}
	for i, t := range rr.Terminals {
		if i >= 3 {
			break
		}
		var s []string
		for _, op := range t {
			s = append(s, op.String())
		}
		rr.Samples = append(rr.Samples, s)
	}
	rr.Wall = time.Since(start).Seconds()
	return rr, nil
}

// ---- replay files ----

type ReplayFile struct {
	Violation Violation      `json:"violation"`
	Scenario  string         `json:"scenario"`
	Params    map[string]any `json:"params,omitempty"`
	Tier      string         `json:"tier"`
}

func WriteReplay(dir string, v Violation, sc *Scenario, tier string) (string, error) {
	if err := os.MkdirAll(dir, 0o755); err != nil {
		return "", err
	}
	bz, _ := json.MarshalIndent(ReplayFile{Violation: v, Scenario: sc.Name, Params: sc.Params, Tier: tier}, "", " ")
	h := fnv(bz)
	p := fmt.Sprintf("%s/%s-%08x.json", dir, v.Prop, h)
	return p, os.WriteFile(p, bz, 0o644)
}

func fnv(b []byte) uint32 {
	h := uint32(2166136261)
	for _, c := range b {
		h ^= uint32(c)
		h *= 16777619
	}
	return h
}
