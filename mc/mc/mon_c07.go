package mc

import (
	"fmt"
	"regexp"

	"verif/mc/ref"
)

// C07(a) — the block hook returns nil and does not panic in every explored state at every later
// instant. (The fault-injection half, C07(b), lives in faults.go.)
type monC07 struct{ st *Stats }

func NewC07() Monitor           { return &monC07{st: NewStats()} }
func (m *monC07) Prop() string  { return "C07" }
func (m *monC07) Stats() *Stats { return m.st }

var reDigits = regexp.MustCompile(`[0-9]+`)

func (m *monC07) OnTransition(t *Transition) []Violation {
	if t.Op.Kind != "block" && t.Op.Kind != "tick" {
		return nil
	}
	m.st.Inc("blocks")
	// classify the pre-state: which statuses are present, in which position
	cls := ""
	for _, a := range t.Pre.Auctions {
		cls += fmt.Sprintf("%d%s/", a.Type, ref.StatusName(a.Status))
	}
	if len(t.Pre.Auctions) > 0 {
		m.st.Inc("blocks_with_auctions")
		m.st.Case("status-vector", cls)
		m.st.Inc("blocks_in_status_vector/" + cls)
		last := t.Pre.Auctions[len(t.Pre.Auctions)-1]
		if last.Status == ref.StatusFinished || last.Status == ref.StatusCancelled {
			m.st.Inc("blocks_with_terminal_last_auction")
		}
		for _, a := range t.Pre.Auctions {
			if a.Status == ref.StatusStarted && len(t.Pre.Bids[a.ID]) == 0 && !a.LastEnd().After(t.Post.Time) {
				m.st.Inc("settlements_of_empty_books")
			}
		}
		if t.Pre.RawModule != t.Post.RawModule {
			m.st.Case("effective-block", t.Pre.RawModule+t.Post.Time.String())
			m.st.Sample(map[string]any{"history": opsStr(t.History()), "statuses_before": cls})
		}
	}
	var vs []Violation
	if t.Res.Panic != "" {
		vs = append(vs, Violation{Prop: "C07", Sig: "block-panic", Detail: fmt.Sprintf("block hook panicked in state [%s] at %s: %s", cls, t.Post.Time, firstLine(t.Res.Panic))})
	} else if t.Res.Err != nil {
		vs = append(vs, Violation{Prop: "C07", Sig: "block-error/" + reDigits.ReplaceAllString(t.Res.ErrStr, "N"),
			Detail: fmt.Sprintf("block hook returned %q in state [%s] at %s", t.Res.ErrStr, cls, t.Post.Time)})
	}
	return vs
}

func firstLine(s string) string {
	for i, c := range s {
		if c == '\n' {
			return s[:i]
		}
	}
	return s
}
