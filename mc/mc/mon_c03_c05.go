package mc

import (
	"fmt"
	"math/big"
	"sort"

	sdk "github.com/cosmos/cosmos-sdk/types"

	fkeeper "github.com/tendermint/fundraising/x/fundraising/keeper"

	"verif/mc/ref"
	"verif/mc/world"
)

// observedMatching runs the real CalculateBatchAllocation on a throw-away branch of ctx.
func observedMatching(w *world.World, ctx sdk.Context, aid uint64) (fkeeper.MatchingInfo, error) {
	cctx, _ := ctx.CacheContext()
	a, err := w.K.Auction.Get(cctx, aid)
	if err != nil {
		return fkeeper.MatchingInfo{}, err
	}
	return w.K.CalculateBatchAllocation(cctx, a)
}

func bookDigest(s *ref.State, a *ref.Auction) string {
	var parts []string
	for _, b := range s.Bids[a.ID] {
		parts = append(parts, fmt.Sprintf("%s/%d/%s/%s", world.NameOf(b.Bidder), b.Type, ratStr(b.Price), b.Amt))
	}
	sort.Strings(parts)
	d := fmt.Sprintf("s=%s|", a.SellAmt)
	for _, al := range s.Allowed[a.ID] {
		d += fmt.Sprintf("%s<=%s,", world.NameOf(al.Bidder), al.Max)
	}
	for _, p := range parts {
		d += "|" + p
	}
	return d
}

func bookString(s *ref.State, a *ref.Auction) []string {
	var parts []string
	for _, b := range s.Bids[a.ID] {
		kind := "worth"
		if b.Type == ref.BidMany {
			kind = "many"
		}
		parts = append(parts, fmt.Sprintf("#%d %s %s p=%s %s%s", b.ID, world.NameOf(b.Bidder), kind, b.Price.FloatString(3), b.Amt, b.Denom))
	}
	return parts
}

// sellingReceipts returns what each account received from the selling escrow of a in this block as an
// allocation. The settlement code pays the allocations first and then sweeps the unsold remainder to
// the auctioneer with one last transfer; that last transfer to the auctioneer is not an allocation
// (this also holds when the auctioneer bids in their own auction).
func sellingReceipts(trs []Transfer, a *ref.Auction) map[string]*big.Int {
	out := map[string]*big.Int{}
	last := -1
	for i, tr := range trs {
		if tr.From == a.SellAddr && tr.To == a.Auctioneer {
			last = i
		}
	}
	for i, tr := range trs {
		if tr.From == a.SellAddr && i != last {
			if _, ok := out[tr.To]; !ok {
				out[tr.To] = new(big.Int)
			}
			out[tr.To].Add(out[tr.To], tr.Coins.Get(a.SellDenom))
		}
	}
	return out
}

// payingRefunds returns what each account got back from the paying escrow of a in this block. The
// last transfer from the paying escrow to the auctioneer / the vesting escrow is the sweep of the
// proceeds, not a refund.
func payingRefunds(trs []Transfer, a *ref.Auction) map[string]*big.Int {
	out := map[string]*big.Int{}
	last := -1
	for i, tr := range trs {
		if tr.From == a.PayAddr && (tr.To == a.Auctioneer || tr.To == a.VestAddr) {
			last = i
		}
	}
	for i, tr := range trs {
		if tr.From == a.PayAddr && i != last && tr.To != a.VestAddr {
			if _, ok := out[tr.To]; !ok {
				out[tr.To] = new(big.Int)
			}
			out[tr.To].Add(out[tr.To], tr.Coins.Get(a.PayDenom))
		}
	}
	return out
}

func reservedByBidder(s *ref.State, a *ref.Auction) map[string]*big.Int {
	out := map[string]*big.Int{}
	for _, b := range s.Bids[a.ID] {
		if _, ok := out[b.Bidder]; !ok {
			out[b.Bidder] = new(big.Int)
		}
		out[b.Bidder].Add(out[b.Bidder], ref.RequiredReservation(b, a.PayDenom))
	}
	return out
}

// -------------------------------------------------------------------------------------------
// C03 — clearing price = lowest bid price whose capped demand fits; allocation = capped demand.
// Checked (1) on the MatchingInfo the real CalculateBatchAllocation returns for the order book of
// every explored state with an open batch auction, and (2) on the balances at every settlement.
// -------------------------------------------------------------------------------------------

type monC03 struct {
	st   *Stats
	seen map[string]bool
}

func NewC03() Monitor           { return &monC03{st: NewStats(), seen: map[string]bool{}} }
func (m *monC03) Prop() string  { return "C03" }
func (m *monC03) Stats() *Stats { return m.st }

func (m *monC03) classify(s *ref.State, a *ref.Auction, cl *ref.Clearing) string {
	bids := s.Bids[a.ID]
	prices := ref.DistinctPricesAsc(bids)
	c := fmt.Sprintf("levels=%d", len(prices))
	if cl.Nothing {
		if !cl.Found {
			return c + "/no-price-fits"
		}
		return c + "/zero-demand"
	}
	// where does P* sit among the levels; is there a dust level above it
	idx := 0
	for i, p := range prices {
		if p.Cmp(cl.Price) == 0 {
			idx = i
		}
	}
	caps := map[string]*big.Int{}
	for _, al := range s.Allowed[a.ID] {
		caps[al.Bidder] = al.Max
	}
	dust := false
	for _, p := range prices {
		if p.Cmp(cl.Price) > 0 {
			if _, tot := ref.DemandAt(p, bids, caps); tot.Sign() == 0 {
				dust = true
			}
		}
	}
	capped := false
	for _, b := range bids {
		if cp, ok := caps[b.Bidder]; ok {
			raw := new(big.Int)
			for _, b2 := range bids {
				if b2.Bidder == b.Bidder && b2.Price.Cmp(cl.Price) >= 0 {
					raw.Add(raw, ref.QtyAt(b2, cl.Price))
				}
			}
			if raw.Cmp(cp) > 0 {
				capped = true
			}
		}
	}
	return fmt.Sprintf("%s/pstar@%d/dust-above=%v/cap-binds=%v", c, idx, dust, capped)
}

func (m *monC03) checkBook(t *Transition, s *ref.State, ctx sdk.Context, a *ref.Auction, where string) []Violation {
	var vs []Violation
	bids := s.Bids[a.ID]
	if len(bids) == 0 {
		return nil
	}
	dg := bookDigest(s, a)
	if m.seen[dg] {
		return nil
	}
	m.seen[dg] = true
	cl := ref.Clear(bids, s.Allowed[a.ID], a.SellAmt)
	mi, err := observedMatching(t.W, ctx, a.ID)
	m.st.Inc("order_books_checked")
	m.st.Case("book", dg)
	cls := m.classify(s, a, cl)
	m.st.Inc("class/" + cls)
	if err != nil {
		return []Violation{{Prop: "C03", Sig: "matching-error", Detail: fmt.Sprintf("CalculateBatchAllocation failed on book %v: %v", bookString(s, a), err)}}
	}
	obsTotal := new(big.Int)
	if !mi.TotalMatchedAmount.IsNil() {
		obsTotal = mi.TotalMatchedAmount.BigInt()
	}
	desc := func() string {
		return fmt.Sprintf("book %v caps %s supply %s", bookString(s, a), capsStr(s, a), a.SellAmt)
	}
	if cl.Nothing {
		if obsTotal.Sign() != 0 {
			vs = append(vs, Violation{Prop: "C03", Sig: "sold-when-nothing-qualifies/" + where, Detail: fmt.Sprintf("%s: no qualifying price (found=%v) but the module matches %s", desc(), cl.Found, obsTotal)})
		}
	} else {
		if obsTotal.Cmp(cl.Sold) != 0 {
			sig := "wrong-total/" + where
			if obsTotal.Sign() == 0 {
				sig = "nothing-sold-although-price-qualifies/" + where
			}
			vs = append(vs, Violation{Prop: "C03", Sig: sig, Detail: fmt.Sprintf("%s: reference P*=%s sells %s, module sells %s at %v [%s]", desc(), cl.Price.FloatString(6), cl.Sold, obsTotal, mi.MatchedPrice, cls)})
		} else if !mi.MatchedPrice.IsNil() && ref.R(mi.MatchedPrice.String()).Cmp(cl.Price) != 0 {
			vs = append(vs, Violation{Prop: "C03", Sig: "wrong-clearing-price/" + where, Detail: fmt.Sprintf("%s: reference P*=%s, module %s", desc(), cl.Price.FloatString(6), mi.MatchedPrice)})
		}
	}
	for bidder, want := range cl.Alloc {
		got := new(big.Int)
		if v, ok := mi.AllocationMap[bidder]; ok && !v.IsNil() {
			got = v.BigInt()
		}
		if got.Cmp(want) != 0 && len(vs) == 0 {
			vs = append(vs, Violation{Prop: "C03", Sig: "wrong-allocation/" + where, Detail: fmt.Sprintf("%s: %s should be allocated %s, module says %s", desc(), world.NameOf(bidder), want, got)})
		}
	}
	if len(vs) == 0 {
		m.st.Sample(map[string]any{"book": bookString(s, a), "caps": capsStr(s, a), "supply": a.SellAmt.String(), "class": cls, "module_total": obsTotal.String()})
	}
	return vs
}

func capsStr(s *ref.State, a *ref.Auction) string {
	o := ""
	for _, al := range s.Allowed[a.ID] {
		o += fmt.Sprintf("%s<=%s ", world.NameOf(al.Bidder), al.Max)
	}
	return o
}

func (m *monC03) OnTransition(t *Transition) []Violation {
	var vs []Violation
	// (1) every order book reached
	if t.Res.OK() {
		for _, a := range t.Post.Auctions {
			if a.Type == ref.TypeBatch && a.Status == ref.StatusStarted {
				vs = append(vs, m.checkBook(t, t.Post, t.PostCtx, a, "book")...)
			}
		}
	}
	// (2) settlement balances
	if t.Op.Kind == "block" || t.Op.Kind == "tick" {
		trs := Transfers(t.Res.Events)
		for _, a := range t.Pre.Auctions {
			if a.Type != ref.TypeBatch {
				continue
			}
			step := ref.StepOf(t.Pre, a, t.Post.Time)
			if step.Kind != ref.StepSettle {
				continue
			}
			m.st.Inc("settlements_checked")
			got := sellingReceipts(trs, a)
			cl := step.Clearing
			for bidder, want := range cl.Alloc {
				g := got[bidder]
				if g == nil {
					g = new(big.Int)
				}
				if g.Cmp(want) != 0 {
					sig := "settlement-allocation"
					if cl.Nothing {
						sig = "settlement-sold-when-nothing-qualifies"
					} else if g.Sign() == 0 {
						sig = "settlement-nothing-delivered"
					}
					vs = append(vs, Violation{Prop: "C03", Sig: sig, Detail: fmt.Sprintf("book %v caps %s supply %s: %s receives %s at settlement, capped demand at P* is %s", bookString(t.Pre, a), capsStr(t.Pre, a), a.SellAmt, world.NameOf(bidder), g, want)})
				}
			}
			for rcpt := range got {
				if _, ok := cl.Alloc[rcpt]; !ok {
					vs = append(vs, Violation{Prop: "C03", Sig: "settlement-stranger", Detail: fmt.Sprintf("%s receives selling coins without a bid", world.NameOf(rcpt))})
				}
			}
			if cl.Nothing {
				rf := payingRefunds(trs, a)
				for bidder, r := range reservedByBidder(t.Pre, a) {
					g := rf[bidder]
					if g == nil {
						g = new(big.Int)
					}
					if g.Cmp(r) != 0 {
						vs = append(vs, Violation{Prop: "C03", Sig: "not-everything-refunded", Detail: fmt.Sprintf("nothing sold but %s gets %s of %s back", world.NameOf(bidder), g, r)})
					}
				}
				m.st.Inc("settlements_nothing_sold")
			}
		}
	}
	return vs
}

// -------------------------------------------------------------------------------------------
// C04 — one uniform price, never above the limit, rounding bounds.
// -------------------------------------------------------------------------------------------

type monC04 struct{ st *Stats }

func NewC04() Monitor           { return &monC04{st: NewStats()} }
func (m *monC04) Prop() string  { return "C04" }
func (m *monC04) Stats() *Stats { return m.st }

func (m *monC04) OnTransition(t *Transition) []Violation {
	var vs []Violation
	bad := func(sig, f string, a ...any) {
		vs = append(vs, Violation{Prop: "C04", Sig: sig, Detail: fmt.Sprintf(f, a...)})
	}
	// fixed price: per accepted bid, what is taken vs what is granted
	if t.Op.Kind == "place" && t.Res.OK() {
		a := t.Pre.Auction(t.Op.AID)
		if a != nil && a.Type == ref.TypeFixed {
			post := t.Post.Auction(a.ID)
			recv := ref.Sub(a.Remaining, post.Remaining)
			paid := ref.Sub(t.Post.BalOf(a.PayAddr, a.PayDenom), t.Pre.BalOf(a.PayAddr, a.PayDenom))
			p := a.StartPrice
			diff := new(big.Rat).Sub(ref.RatInt(paid), ref.Mul(p, recv)) // paid - p*recv
			if diff.Sign() < 0 {
				bad("fixed-underpaid", "bid %v pays %s for %s coins at price %s", t.Op, paid, recv, p.FloatString(18))
			}
			if t.Op.Denom == a.PayDenom {
				if diff.Cmp(p) >= 0 {
					bad("fixed-rounding-paying-denom", "bid %v pays %s for %s coins: rounding %s is not below one selling coin's worth %s", t.Op, paid, recv, diff.FloatString(18), p.FloatString(18))
				}
			} else {
				if diff.Cmp(big.NewRat(1, 1)) >= 0 {
					bad("fixed-rounding-selling-denom", "bid %v pays %s for %s coins: rounding %s is not below one paying unit", t.Op, paid, recv, diff.FloatString(18))
				}
			}
			m.st.Inc("fixed_bids_checked")
			m.st.Case("fixed-bid", fmt.Sprintf("%s|%s|%s", ratStr(p), t.Op.Denom, t.Op.Amt))
			if diff.Sign() > 0 {
				m.st.Inc("fixed_bids_with_rounding")
			}
		}
	}
	if t.Op.Kind != "block" && t.Op.Kind != "tick" {
		return vs
	}
	trs := Transfers(t.Res.Events)
	for _, a := range t.Pre.Auctions {
		step := ref.StepOf(t.Pre, a, t.Post.Time)
		if step.Kind != ref.StepSettle {
			continue
		}
		got := sellingReceipts(trs, a)
		if a.Type == ref.TypeFixed {
			// delivered = sum of what each bid was granted
			want := map[string]*big.Int{}
			for _, b := range t.Pre.Bids[a.ID] {
				if _, ok := want[b.Bidder]; !ok {
					want[b.Bidder] = new(big.Int)
				}
				want[b.Bidder].Add(want[b.Bidder], ref.SellingAmount(b, a.PayDenom))
			}
			for bidder, w := range want {
				g := got[bidder]
				if g == nil {
					g = new(big.Int)
				}
				if g.Cmp(w) != 0 {
					bad("fixed-delivery", "auction %d delivers %s to %s whose bids were granted %s", a.ID, g, world.NameOf(bidder), w)
				}
			}
			m.st.Inc("fixed_settlements")
			// "ledger" scenarios without a bid fee: what a bidder really handed over (genesis balance minus
			// current balance) against what they receive, independent of the records: the fixed price for the
			// coins received plus, per recorded bid, less than one selling coin's worth (paying-denominated
			// bids) or one paying unit (selling-denominated bids). A bid that was paid for and then lost from
			// the records shows up here.
			if t.Scen.Tags["ledger"] && t.Pre.BidFee.Get(a.PayDenom).Sign() == 0 {
				for bidder := range want {
					gen := new(big.Int)
					if cs, ok := t.Scen.Cfg.Balances[world.NameOf(bidder)]; ok {
						gen = cs.AmountOf(a.PayDenom).BigInt()
					}
					spent := ref.RatInt(ref.Sub(gen, t.Pre.BalOf(bidder, a.PayDenom)))
					g := got[bidder]
					if g == nil {
						g = new(big.Int)
					}
					lo := ref.Mul(a.StartPrice, g)
					slack := new(big.Rat)
					for _, b := range t.Pre.Bids[a.ID] {
						if b.Bidder != bidder {
							continue
						}
						if b.Denom == a.PayDenom && a.StartPrice.Cmp(big.NewRat(1, 1)) > 0 {
							slack.Add(slack, a.StartPrice)
						} else {
							slack.Add(slack, big.NewRat(1, 1))
						}
					}
					hi := new(big.Rat).Add(lo, slack)
					if spent.Cmp(lo) < 0 || (spent.Cmp(hi) >= 0 && spent.Cmp(lo) != 0) {
						bad("fixed-paid-vs-received", "auction %d: %s handed over %s %s in all and receives %s coins at price %s (allowed: [%s, %s))", a.ID, world.NameOf(bidder), spent.FloatString(0), a.PayDenom, g, a.StartPrice.FloatString(6), lo.FloatString(6), hi.FloatString(6))
					}
					m.st.Inc("fixed_settlements_with_ledger")
				}
			}
			continue
		}
		// batch: use the price the module itself reports for the pre-state book
		mi, err := observedMatching(t.W, t.PreCtx, a.ID)
		if err != nil {
			continue
		}
		cl := step.Clearing
		refunds := payingRefunds(trs, a)
		reserved := reservedByBidder(t.Pre, a)
		var pstar *big.Rat
		if !mi.MatchedPrice.IsNil() && mi.MatchedPrice.IsPositive() {
			pstar = ref.R(mi.MatchedPrice.String())
		}
		m.st.Inc("batch_settlements")
		// In single-auction scenarios where bidders do nothing but bid (tag "ledger"), what a bidder
		// really paid into the escrow is a function of the pre-state alone: genesis balance minus current
		// balance minus the bid fees of their recorded bids. It replaces the record-derived reservation,
		// so that an over- or under-charge at placement or modification shows up in this property's own
		// bounds (and not only in C01/C02/C11).
		if t.Scen.Tags["ledger"] {
			for bidder := range reserved {
				name := world.NameOf(bidder)
				gen := new(big.Int)
				if cs, ok := t.Scen.Cfg.Balances[name]; ok {
					gen = cs.AmountOf(a.PayDenom).BigInt()
				}
				fees := new(big.Int)
				for _, b := range t.Pre.Bids[a.ID] {
					if b.Bidder == bidder {
						fees.Add(fees, t.Pre.BidFee.Get(a.PayDenom))
					}
				}
				actual := ref.Sub(ref.Sub(gen, t.Pre.BalOf(bidder, a.PayDenom)), fees)
				if actual.Cmp(reserved[bidder]) != 0 {
					m.st.Inc("ledger_differs_from_records")
				}
				reserved[bidder] = actual
			}
			m.st.Inc("batch_settlements_with_ledger")
		}
		for bidder, res := range reserved {
			q := got[bidder]
			if q == nil {
				q = new(big.Int)
			}
			rf := refunds[bidder]
			if rf == nil {
				rf = new(big.Int)
			}
			paid := ref.Sub(res, rf)
			if paid.Sign() < 0 {
				bad("batch-refund-exceeds-reservation", "%s reserved %s, refunded %s", world.NameOf(bidder), res, rf)
				continue
			}
			if q.Sign() == 0 {
				if paid.Sign() != 0 {
					bad("batch-loser-pays", "%s wins nothing in auction %d but pays %s of %s", world.NameOf(bidder), a.ID, paid, res)
				}
				m.st.Inc("batch_losers")
				continue
			}
			if pstar == nil {
				bad("batch-winner-without-price", "%s receives %s but the module reports no clearing price", world.NameOf(bidder), q)
				continue
			}
			// number of this bidder's matched bids (price-time priority); every bid at or above P* with a
			// positive quantity is an upper bound when the cap binds
			nMatched := 0
			for _, b := range t.Pre.Bids[a.ID] {
				if b.Bidder == bidder && cl.Contribution[b.ID] != nil && cl.Contribution[b.ID].Sign() > 0 {
					nMatched++
				}
			}
			lo := ref.Mul(pstar, q)
			if ref.RatInt(paid).Cmp(lo) < 0 {
				bad("batch-underpaid", "%s receives %s at P*=%s but pays only %s", world.NameOf(bidder), q, pstar.FloatString(6), paid)
			}
			hi := new(big.Rat).Add(lo, big.NewRat(int64(nMatched), 1))
			if nMatched > 0 && ref.RatInt(paid).Cmp(hi) >= 0 {
				bad("batch-overpaid", "%s receives %s at P*=%s with %d matched bids but pays %s (limit < %s)", world.NameOf(bidder), q, pstar.FloatString(6), nMatched, paid, hi.FloatString(6))
			}
			if paid.Cmp(res) > 0 {
				bad("batch-paid-more-than-reserved", "%s pays %s, reserved %s", world.NameOf(bidder), paid, res)
			}
			// P* never above the limit of a matched bid: every bid that contributes is priced >= P*
			for _, b := range t.Pre.Bids[a.ID] {
				if b.Bidder == bidder && cl.Contribution[b.ID] != nil && cl.Contribution[b.ID].Sign() > 0 && b.Price.Cmp(pstar) < 0 {
					bad("batch-price-above-limit", "bid #%d of %s is limited to %s but the clearing price is %s", b.ID, world.NameOf(bidder), b.Price.FloatString(6), pstar.FloatString(6))
				}
			}
			// the bidder cannot have been served from bids below P*: what they receive fits in their bids >= P*
			fit := new(big.Int)
			for _, b := range t.Pre.Bids[a.ID] {
				if b.Bidder == bidder && b.Price.Cmp(pstar) >= 0 {
					fit.Add(fit, ref.QtyAt(b, pstar))
				}
			}
			if q.Cmp(fit) > 0 {
				bad("batch-served-below-limit", "%s receives %s but their bids at or above P*=%s only ask for %s", world.NameOf(bidder), q, pstar.FloatString(6), fit)
			}
			m.st.Inc("batch_winners_checked")
			m.st.Case("winner", fmt.Sprintf("%s|%s|%s|%d|%s", pstar.FloatString(18), q, paid, nMatched, res))
			if ref.RatInt(paid).Cmp(lo) > 0 {
				m.st.Inc("batch_winners_with_rounding")
			}
			if paid.Cmp(res) < 0 {
				m.st.Inc("batch_winners_with_refund")
			}
			m.st.Sample(map[string]any{"book": bookString(t.Pre, a), "bidder": world.NameOf(bidder), "pstar": pstar.FloatString(6), "received": q.String(), "paid": paid.String(), "reserved": res.String()})
		}
	}
	return vs
}

// -------------------------------------------------------------------------------------------
// C05 — nobody receives more than allowance, request or supply.
// -------------------------------------------------------------------------------------------

type monC05 struct{ st *Stats }

func NewC05() Monitor           { return &monC05{st: NewStats()} }
func (m *monC05) Prop() string  { return "C05" }
func (m *monC05) Stats() *Stats { return m.st }

func (m *monC05) OnTransition(t *Transition) []Violation {
	var vs []Violation
	bad := func(sig, f string, a ...any) {
		vs = append(vs, Violation{Prop: "C05", Sig: sig, Detail: fmt.Sprintf(f, a...)})
	}
	if t.Op.Kind == "place" && t.Res.OK() {
		a := t.Pre.Auction(t.Op.AID)
		if a != nil && a.Type == ref.TypeFixed {
			bidder := addrOf(t.Op.Signer)
			nb := &ref.Bid{Type: ref.BidFixed, Price: ref.R(t.Op.Price), Denom: t.Op.Denom, Amt: big0(t.Op.Amt)}
			sum := ref.SellingAmount(nb, a.PayDenom)
			this := new(big.Int).Set(sum)
			for _, b := range t.Pre.Bids[a.ID] {
				if b.Bidder == bidder {
					sum.Add(sum, ref.SellingAmount(b, a.PayDenom))
				}
			}
			al := t.Pre.AllowedOf(a.ID, bidder)
			if al == nil {
				bad("fixed-accepted-without-allowance", "%v accepted although %s has no allow-list entry", t.Op, t.Op.Signer)
			} else if sum.Cmp(al.Max) > 0 {
				bad("fixed-accepted-over-cap", "%v accepted: cumulative %s exceeds the cap %s", t.Op, sum, al.Max)
			}
			if this.Cmp(a.Remaining) > 0 {
				bad("fixed-accepted-over-remainder", "%v accepted: asks %s, remainder %s", t.Op, this, a.Remaining)
			}
			m.st.Inc("fixed_acceptances")
			if al != nil && sum.Cmp(al.Max) == 0 {
				m.st.Inc("fixed_acceptances_exactly_at_cap")
			}
			m.st.Case("fixed-accept", fmt.Sprintf("%s|%s|%s|%s", t.Op.Denom, t.Op.Amt, sum, a.Remaining))
		}
	}
	if t.Op.Kind != "block" && t.Op.Kind != "tick" {
		return vs
	}
	trs := Transfers(t.Res.Events)
	for _, a := range t.Pre.Auctions {
		step := ref.StepOf(t.Pre, a, t.Post.Time)
		got := sellingReceipts(trs, a)
		if step.Kind != ref.StepSettle {
			if len(got) > 0 {
				bad("distribution-outside-settlement", "auction %d distributes selling coins in a block that does not settle it", a.ID)
			}
			continue
		}
		total := new(big.Int)
		var pstar *big.Rat
		if a.Type == ref.TypeBatch {
			if mi, err := observedMatching(t.W, t.PreCtx, a.ID); err == nil && !mi.MatchedPrice.IsNil() && mi.MatchedPrice.IsPositive() {
				pstar = ref.R(mi.MatchedPrice.String())
			}
		}
		for bidder, q := range got {
			total.Add(total, q)
			al := t.Pre.AllowedOf(a.ID, bidder)
			if a.Type == ref.TypeBatch {
				if al == nil {
					if q.Sign() > 0 {
						bad("batch-received-without-allowance", "%s receives %s without an allow-list entry", world.NameOf(bidder), q)
					}
				} else if q.Cmp(al.Max) > 0 {
					bad("batch-received-over-cap", "%s receives %s, cap at settlement %s (book %v)", world.NameOf(bidder), q, al.Max, bookString(t.Pre, a))
				}
				if pstar != nil {
					asked := new(big.Int)
					for _, b := range t.Pre.Bids[a.ID] {
						if b.Bidder == bidder && b.Price.Cmp(pstar) >= 0 {
							asked.Add(asked, ref.QtyAt(b, pstar))
						}
					}
					if q.Cmp(asked) > 0 {
						bad("batch-received-over-request", "%s receives %s but asked for %s at P*=%s", world.NameOf(bidder), q, asked, pstar.FloatString(6))
					}
					if al != nil && asked.Cmp(al.Max) > 0 {
						m.st.Inc("batch_cap_binding_winners")
					}
				}
				m.st.Case("batch-recv", fmt.Sprintf("%s|%s|%v", q, capOf(al), pstar))
			} else {
				asked := new(big.Int)
				for _, b := range t.Pre.Bids[a.ID] {
					if b.Bidder == bidder {
						asked.Add(asked, ref.SellingAmount(b, a.PayDenom))
					}
				}
				if q.Cmp(asked) != 0 {
					bad("fixed-received-differs-from-admitted", "%s receives %s, admitted bids sum to %s", world.NameOf(bidder), q, asked)
				}
				m.st.Case("fixed-recv", fmt.Sprintf("%s|%s", q, capOf(al)))
			}
		}
		if total.Cmp(a.SellAmt) > 0 {
			bad("oversold", "auction %d distributes %s of %s offered", a.ID, total, a.SellAmt)
		}
		m.st.Inc("settlements_checked")
		if total.Cmp(a.SellAmt) == 0 {
			m.st.Inc("settlements_selling_everything")
		}
		if len(got) > 0 {
			m.st.Sample(map[string]any{"history": opsStr(t.History()), "auction": a.ID, "received": fmtBig(got), "offered": a.SellAmt.String()})
		}
	}
	return vs
}

func capOf(al *ref.Allowed) string {
	if al == nil {
		return "none"
	}
	return al.Max.String()
}

func fmtBig(m map[string]*big.Int) map[string]string {
	o := map[string]string{}
	for k, v := range m {
		o[world.NameOf(k)] = v.String()
	}
	return o
}
