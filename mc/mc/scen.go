package mc

import (
	"fmt"
	sdk "github.com/cosmos/cosmos-sdk/types"

	ftypes "github.com/tendermint/fundraising/x/fundraising/types"

	"verif/mc/ref"
	"verif/mc/world"
)

func coins(s string) sdk.Coins {
	cs, err := sdk.ParseCoinsNormalized(s)
	if err != nil {
		panic(err)
	}
	return cs
}

func params(creation, bid string, ext uint32) ftypes.Params {
	p := ftypes.Params{AuctionCreationFee: sdk.Coins{}, PlaceBidFee: sdk.Coins{}, ExtendedPeriod: ext}
	if creation != "" {
		p.AuctionCreationFee = coins(creation)
	}
	if bid != "" {
		p.PlaceBidFee = coins(bid)
	}
	return p
}

// Compressed timeline used by every scenario: instant 0 is the genesis block time; auctions start at
// 0 (already passed at creation) or 1, end at 2; batch extensions (period 1 day) add 3, 4; instalments
// are released after the last possible end time. "Before / exactly at / after" positions come from
// blocks at the instants and ticks (+1h) after them; skipped instants come from block(k) jumps.
func sched(k1, k2 int) []Sched {
	return []Sched{{K: k1, W: "0.333333333333333333"}, {K: k2, W: "0.666666666666666667"}}
}

func scenFrom(name string, cfg world.Config, pre []Op, bud Budget, al *Alphabet, desc map[string]any) *Scenario {
	if desc == nil {
		desc = map[string]any{}
	}
	desc["alphabet"] = al.Describe()
	return &Scenario{al: al, Name: name, Cfg: cfg, Preamble: pre, Budget: bud, Menu: func(st *ref.State, b Budget) []Op { return al.Menu(st, b) }, Params: desc}
}

func stdBalances() map[string]sdk.Coins {
	return map[string]sdk.Coins{
		"auc1":  coins("25acoin,25bcoin"),
		"auc2":  coins("25acoin,25bcoin"),
		"bid1":  coins("40acoin,40bcoin"),
		"bid2":  coins("40acoin,40bcoin"),
		"bid3":  coins("40acoin,40bcoin"),
		"out1":  coins("40acoin,40bcoin"),
		"donor": coins("40acoin,40bcoin"),
		"poor":  coins("1acoin,2bcoin"),
	}
}

func feeParams(fees bool) (ftypes.Params, string) {
	if fees {
		return params("2bcoin", "1bcoin", 1), "fee"
	}
	return params("", "", 1), "nofee"
}

// S1a: lifecycle of one fixed-price auction created by an op (waiting/open at creation, with and
// without vesting), allow-list changes, few bids, cancel attempts, every block pattern.
func S1a(tier string, fees bool) *Scenario {
	p, fn := feeParams(fees)
	cfg := world.Config{Balances: stdBalances(), Params: p}
	al := &Alphabet{
		Bidders: []string{"bid1", "bid2"}, AllowBidders: []string{"bid1", "bid2"},
		AllowCaps: []string{"3", "10"}, UpdateCaps: []string{"5"},
		FixedAmts:  []string{"3", "7"},
		Cancellers: []string{"auc1", "auc1^", "bid1"}, // auc1^: the auctioneer writing its address in upper case
		MaxK:       5, Rejects: true,
	}
	prices := []string{"0.5", "3"}
	bud := Budget{"create": 1, "allow": 2, "update": 1, "bid": 2, "cancel": 1, "block": 5, "tick": 1}
	if tier == "thorough" {
		prices = []string{"0.5", "3", "0.333333333333333333"}
		al.FixedAmts = []string{"1", "3", "7"}
		bud = Budget{"create": 1, "allow": 2, "update": 1, "bid": 3, "cancel": 1, "block": 5, "tick": 2}
	}
	for _, pr := range prices {
		for _, sk := range []int{0, 1} {
			for _, sc := range [][]Sched{nil, sched(3, 4)} {
				al.Creates = append(al.Creates, Op{Kind: "create_fixed", Signer: "auc1", StartPrice: pr, Sell: "10acoin", PayDenom: "bcoin", StartK: sk, EndK: 2, Sched: sc})
			}
		}
	}
	if tier == "thorough" {
		// a creation that leaves the start time out (valid: the auction opens at once)
		al.Creates = append(al.Creates, Op{Kind: "create_fixed", Signer: "auc1", StartPrice: "3", Sell: "10acoin", PayDenom: "bcoin", ZeroStart: true, EndK: 2, Sched: sched(3, 4)})
	}
	// creation messages that must be rejected (one cheap rejected op per state on a correct tree; if one
	// of them is ever accepted, the histories behind it are explored like any other)
	al.Creates = append(al.Creates,
		Op{Kind: "create_fixed", Signer: "auc1", StartPrice: "3", Sell: "10acoin", PayDenom: "bcoin", StartK: 0, EndK: 2, Sched: []Sched{{K: 3, W: "0.5"}, {K: 3, W: "0.5"}}, Tag: "duplicate-release-time"},
		Op{Kind: "create_fixed", Signer: "auc1", StartPrice: "3", Sell: "10acoin", PayDenom: "bcoin", StartK: 0, EndK: 2, Sched: []Sched{{K: 2, W: "1"}}, Tag: "release-at-end-time"},
		Op{Kind: "create_fixed", Signer: "auc1", StartPrice: "3", Sell: "10acoin", PayDenom: "bcoin", StartK: 0, EndK: 2, Sched: []Sched{{K: 3, W: "0.5"}, {K: 4, W: "0.4"}}, Tag: "weights-below-one"},
	)
	return scenFrom("S1a-fixed-lifecycle-"+fn, cfg, nil, bud, al, nil)
}

// S1b: bid sequences against an already open fixed-price auction with vesting (preamble of real ops).
func S1b(tier string, price string, fees bool) *Scenario {
	p, fn := feeParams(fees)
	cfg := world.Config{Balances: stdBalances(), Params: p}
	pre := []Op{
		{Kind: "create_fixed", Signer: "auc1", StartPrice: price, Sell: "10acoin", PayDenom: "bcoin", StartK: 0, EndK: 2, Sched: sched(3, 4)},
		{Kind: "add_allowed", AID: 0, Bidder: "bid1", Max: "10"},
		{Kind: "add_allowed", AID: 0, Bidder: "bid2", Max: "3"},
	}
	al := &Alphabet{
		Bidders: []string{"bid1", "bid2", "out1"}, AllowBidders: []string{"bid1", "bid2"},
		UpdateCaps: []string{"5"},
		FixedAmts:  []string{"1", "3", "7"},
		MaxK:       5, BlockStops: []int{2, 3, 4, 5},
	}
	bud := Budget{"update": 1, "bid": 3, "block": 4, "tick": 1}
	if tier == "thorough" {
		al.FixedAmts = []string{"1", "2", "3", "7", "10"}
		bud = Budget{"update": 1, "bid": 4, "block": 4, "tick": 1}
	}
	return scenFrom("S1b-fixed-bids-p"+price+"-"+fn, cfg, pre, bud, al, nil)
}

// S2a: lifecycle of one batch auction created by an op: extension settings, vesting, bids of both
// kinds, modifications, cap updates, blocks through every end time.
func S2a(tier string, fees bool) *Scenario {
	p, fn := feeParams(fees)
	cfg := world.Config{Balances: stdBalances(), Params: p}
	al := &Alphabet{
		Bidders: []string{"bid1", "bid2"}, AllowBidders: []string{"bid1", "bid2"},
		AllowCaps: []string{"4", "10"}, UpdateCaps: []string{"2"},
		BatchPrices: []string{"1", "2"}, WorthAmts: []string{"6"}, ManyAmts: []string{"7"},
		ModPrices: []string{"2"}, ModAmts: []string{"8"},
		Cancellers: []string{"auc1"},
		MaxK:       7, Rejects: true, BlockStops: []int{1, 2, 3, 4, 5, 6},
	}
	bud := Budget{"create": 1, "allow": 2, "update": 0, "bid": 2, "mod": 1, "cancel": 1, "block": 4, "tick": 1}
	exts := []uint32{0, 2}
	if tier != "thorough" {
		al.AllowCaps = []string{"10"} // the lower cap is reached through update_allowed(2)
	}
	if tier == "thorough" {
		exts = []uint32{0, 1, 2}
		al.WorthAmts = []string{"2", "6"}
		al.ManyAmts = []string{"3", "7"}
		al.BlockStops = nil
		bud = Budget{"create": 1, "allow": 2, "update": 1, "bid": 3, "mod": 1, "cancel": 1, "block": 6, "tick": 1}
	}
	for _, ext := range exts {
		for i, sc := range [][]Sched{nil, sched(5, 6)} {
			if tier != "thorough" && (ext == 0) != (i == 0) {
				continue // quick: (no extension, no vesting) and (2 rounds, vesting)
			}
			al.Creates = append(al.Creates, Op{Kind: "create_batch", Signer: "auc1", StartPrice: "1", MinPrice: "0.5", Sell: "10acoin", PayDenom: "bcoin",
				StartK: 0, EndK: 2, Sched: sc, MaxExt: ext, Rate: "0.5"})
		}
	}
	al.Creates = append(al.Creates, Op{Kind: "create_batch", Signer: "auc1", StartPrice: "1", MinPrice: "0.5", Sell: "10acoin", PayDenom: "bcoin",
		StartK: 1, EndK: 2, MaxExt: 1, Rate: "0.5"})
	al.Creates = append(al.Creates,
		Op{Kind: "create_batch", Signer: "auc1", StartPrice: "1", MinPrice: "0.5", Sell: "10acoin", PayDenom: "bcoin", StartK: 0, EndK: 2, MaxExt: 0, Rate: "0.5", Sched: []Sched{{K: 5, W: "0.5"}, {K: 5, W: "0.5"}}, Tag: "duplicate-release-time"},
		Op{Kind: "create_batch", Signer: "auc1", StartPrice: "1", MinPrice: "0.5", Sell: "10acoin", PayDenom: "bcoin", StartK: 0, EndK: 2, MaxExt: 31, Rate: "0.5", Tag: "too-many-rounds"},
	)
	return scenFrom("S2a-batch-lifecycle-"+fn, cfg, nil, bud, al, nil)
}

// S2b: order-book evolutions on an open batch auction (preamble), both bid kinds, modifications, caps.
func S2b(tier string, ext uint32, fees bool) *Scenario {
	p, fn := feeParams(fees)
	cfg := world.Config{Balances: stdBalances(), Params: p}
	pre := []Op{
		{Kind: "create_batch", Signer: "auc1", StartPrice: "1", MinPrice: "0.5", Sell: "10acoin", PayDenom: "bcoin", StartK: 0, EndK: 2, Sched: sched(5, 6), MaxExt: ext, Rate: "0.5"},
		{Kind: "add_allowed", AID: 0, Bidder: "bid1", Max: "10"},
		{Kind: "add_allowed", AID: 0, Bidder: "bid2", Max: "4"},
	}
	al := &Alphabet{
		Bidders: []string{"bid1", "bid2"}, AllowBidders: []string{"bid1", "bid2"},
		UpdateCaps:  []string{"2"},
		BatchPrices: []string{"0.5", "3"}, WorthAmts: []string{"7"}, ManyAmts: []string{"3"},
		ModPrices: []string{"3"}, ModAmts: []string{"9"},
		MaxK: 7, BlockStops: []int{2, 3, 4, 5, 6},
	}
	bud := Budget{"update": 1, "bid": 3, "mod": 1, "block": 4}
	if tier == "thorough" {
		al.BlockStops = []int{2, 3, 4, 5, 6, 7}
		al.WorthAmts = []string{"2", "7"}
		al.ManyAmts = []string{"3", "8"}
		al.BatchPrices = []string{"0.5", "1", "3", "0.333333333333333333"}
		bud = Budget{"update": 1, "bid": 4, "mod": 2, "block": 6, "tick": 1}
	}
	return scenFrom(fmt.Sprintf("S2b-batch-book-ext%d-%s", ext, fn), cfg, pre, bud, al, nil).tagged("ledger")
}

// S3: several concurrent auctions of both types sharing auctioneer, bidders and (crossed)
// denominations: a0 fixed-price sells acoin for bcoin (vesting), a1 batch sells bcoin for acoin; a third
// one (fixed, by auc2, starts later so that it can be cancelled) may be created by an op.
func S3(tier string, fees bool) *Scenario {
	p, fn := feeParams(fees)
	cfg := world.Config{Balances: stdBalances(), Params: p}
	pre := []Op{
		{Kind: "create_fixed", Signer: "auc1", StartPrice: "2", Sell: "10acoin", PayDenom: "bcoin", StartK: 0, EndK: 2, Sched: sched(5, 6)},
		{Kind: "create_batch", Signer: "auc1", StartPrice: "1", MinPrice: "0.5", Sell: "10bcoin", PayDenom: "acoin", StartK: 0, EndK: 2, MaxExt: 1, Rate: "0.5"},
		{Kind: "add_allowed", AID: 0, Bidder: "bid1", Max: "10"},
		{Kind: "add_allowed", AID: 0, Bidder: "bid2", Max: "5"},
		{Kind: "add_allowed", AID: 1, Bidder: "bid1", Max: "10"},
		{Kind: "add_allowed", AID: 1, Bidder: "bid2", Max: "4"},
	}
	al := &Alphabet{
		Bidders: []string{"bid1", "bid2", "bid2^"}, AllowBidders: []string{"bid1"},
		AllowCaps: []string{"10"}, UpdateCaps: []string{"2"},
		FixedAmts:   []string{"3"},
		BatchPrices: []string{"1", "2"}, WorthAmts: []string{"6"}, ManyAmts: []string{"3"},
		ModPrices: []string{"2"}, ModAmts: []string{},
		Cancellers: []string{"auc2", "auc1"},
		MaxK:       7, BlockStops: []int{1, 2, 3, 4, 5, 6, 7}, // 7: a block after auction 0 has finished (first of several)
		Creates: []Op{{Kind: "create_fixed", Signer: "auc2", StartPrice: "1", Sell: "5acoin", PayDenom: "bcoin", StartK: 1, EndK: 3}},
	}
	bud := Budget{"create": 1, "allow": 0, "update": 1, "bid": 2, "mod": 1, "cancel": 1, "block": 5}
	if tier == "thorough" {
		al.FixedAmts = []string{"3", "7"}
		al.WorthAmts = []string{"2", "6"}
		al.BlockStops = nil
		bud = Budget{"create": 1, "allow": 1, "update": 1, "bid": 4, "mod": 1, "cancel": 1, "block": 6, "tick": 1}
	}
	return scenFrom("S3-multi-"+fn, cfg, pre, bud, al, nil)
}

// S4: order-book enumeration. Preamble: an open batch auction (no extension, so the block at its end
// time settles it) with caps capA/capB for bid1/bid2 (bid3 has the full supply in thorough); then
// every book of at most N bids placed with real PlaceBid, optionally one cap lowered after the bids,
// then the settlement block.
func S4(tier string, supply, capA, capB string, update bool) *Scenario {
	cfg := world.Config{Balances: map[string]sdk.Coins{
		"auc1": coins("25acoin"), "bid1": coins("200bcoin"), "bid2": coins("200bcoin"), "bid3": coins("200bcoin"),
	}, Params: params("", "", 1)}
	pre := []Op{
		{Kind: "create_batch", Signer: "auc1", StartPrice: "1", MinPrice: "0.1", Sell: supply + "acoin", PayDenom: "bcoin", StartK: 0, EndK: 2, MaxExt: 0, Rate: "0.5"},
		{Kind: "add_allowed", AID: 0, Bidder: "bid1", Max: capA},
		{Kind: "add_allowed", AID: 0, Bidder: "bid2", Max: capB},
	}
	al := &Alphabet{
		Bidders: []string{"bid1", "bid2"}, AllowBidders: []string{"bid1"},
		BatchPrices: []string{"1", "2", "10"}, WorthAmts: []string{"1", "5"}, ManyAmts: []string{"1", "3"},
		MaxK: 2, BlockStops: []int{2},
	}
	bud := Budget{"bid": 3, "block": 1}
	if update {
		al.UpdateCaps = []string{"1"}
		bud["update"] = 1
	}
	if tier == "thorough" {
		pre = append(pre, Op{Kind: "add_allowed", AID: 0, Bidder: "bid3", Max: supply})
		al.Bidders = []string{"bid1", "bid2", "bid3"}
		al.BatchPrices = []string{"1", "2", "10", "0.333333333333333333", "1.5"}
		al.WorthAmts = []string{"1", "5", "12"}
		al.ManyAmts = []string{"1", "3", "6"}
		bud["bid"] = 4
	}
	if update {
		// the same account may write its address in upper case (bech32 allows it)
		al.Bidders = append(al.Bidders, "bid1^")
	}
	return scenFrom(fmt.Sprintf("S4-orderbook-s%s-caps%s,%s-upd%v", supply, capA, capB, update), cfg, pre, bud, al, nil).tagged("ledger")
}

func bookScenarios(tier string) []*Scenario {
	out := []*Scenario{S4(tier, "5", "2", "5", false), S4(tier, "10", "10", "10", false), S4(tier, "5", "5", "3", true)}
	return out
}

// S5: vesting. A fixed-price auction at price 1 (proceeds = sum of paying-denominated bids, so any
// proceeds 0..12 can be produced by one or two bids) with a schedule of n instalments; blocks hit,
// skip and overshoot every release instant. Timeline: end 2, releases 3,4,5(,6).
func S5(tier string, weights []string, name string) *Scenario {
	cfg := world.Config{Balances: stdBalances(), Params: params("", "", 1)}
	var sc []Sched
	for i, w := range weights {
		sc = append(sc, Sched{K: 3 + i, W: w})
	}
	pre := []Op{
		{Kind: "create_fixed", Signer: "auc1", StartPrice: "1", Sell: "20acoin", PayDenom: "bcoin", StartK: 0, EndK: 2, Sched: sc},
		{Kind: "add_allowed", AID: 0, Bidder: "bid1", Max: "20"},
	}
	al := &Alphabet{
		Bidders: []string{"bid1"}, FixedAmts: []string{"1", "2", "3", "5"},
		MaxK: 3 + len(weights) + 1,
	}
	bud := Budget{"bid": 2, "block": len(weights) + 2, "tick": 1}
	if tier == "thorough" {
		al.FixedAmts = []string{"1", "2", "3", "4", "5", "6", "7", "8", "9", "10"}
	} else {
		al.FixedAmts = []string{"1", "2", "3", "4", "5", "6", "7"}
	}
	s := scenFrom("S5-vesting-"+name, cfg, pre, bud, al, map[string]any{"weights": weights})
	// only paying-denominated bids (price 1): keep the menu small
	inner := s.Menu
	s.Menu = func(st *ref.State, b Budget) []Op {
		var out []Op
		for _, op := range inner(st, b) {
			if op.Kind == "place" && op.Denom != "bcoin" {
				continue
			}
			out = append(out, op)
		}
		return out
	}
	return s
}

func vestingScenarios(tier string) []*Scenario {
	out := []*Scenario{
		S5(tier, []string{"1"}, "n1"),
		S5(tier, []string{"0.5", "0.5"}, "n2-halves"),
		S5(tier, []string{"0.333333333333333333", "0.333333333333333333", "0.333333333333333334"}, "n3-thirds"),
		S5(tier, []string{"0.000000000000000001", "0.999999999999999999"}, "n2-tiny"),
	}
	{
		out = append(out,
			S5(tier, []string{"0.25", "0.25", "0.25", "0.25"}, "n4-quarters"),
			S5(tier, []string{"0.999999999999999999", "0.000000000000000001"}, "n2-tiny-last"),
			S5(tier, []string{"0.1", "0.2", "0.3", "0.4"}, "n4-ramp"),
			S5(tier, []string{"0.5", "0.25", "0.25"}, "n3-half-first"),
		)
	}
	return out
}

// withRejectsTerminal returns the scenario with representative invalid ops also offered on vesting,
// finished and cancelled auctions. Only scenarios built by scenFrom over an *Alphabet support it.
func (s *Scenario) withRejectsTerminal() *Scenario {
	if s.al != nil {
		s.al.RejectsTerm = true
		s.al.Rejects = true
		s.Name += "+rejects"
	}
	return s
}

func (s *Scenario) withModRejects() *Scenario {
	if s.al != nil {
		s.al.ModRejects = true
		s.al.Rejects = true
		s.Name += "+modrejects"
	}
	return s
}

// S2c: extension rule. An open batch auction with rate / period variants; the order book evolves
// between end times so that the matched count rises, stays, falls by exactly the rate, by more, to
// zero (cap updates and new bids change the count; many-bids of 1 coin make counts easy to steer).
func S2c(tier string, rate string, period uint32) *Scenario {
	cfg := world.Config{Balances: stdBalances(), Params: params("", "", period)}
	pre := []Op{
		{Kind: "create_batch", Signer: "auc1", StartPrice: "1", MinPrice: "0.5", Sell: "4acoin", PayDenom: "bcoin", StartK: 0, EndK: 2, MaxExt: 2, Rate: rate},
		{Kind: "add_allowed", AID: 0, Bidder: "bid1", Max: "4"},
		{Kind: "add_allowed", AID: 0, Bidder: "bid2", Max: "4"},
	}
	al := &Alphabet{
		Bidders: []string{"bid1", "bid2"}, AllowBidders: []string{"bid1", "bid2"},
		UpdateCaps:  []string{"1"},
		BatchPrices: []string{"1", "2"}, ManyAmts: []string{"1", "2"},
		ModPrices: []string{"3"},
		MaxK:      7,
	}
	switch period {
	case 0:
		al.BlockStops = []int{2, 3}
	case 1:
		al.BlockStops = []int{2, 3, 4, 5}
	default:
		al.BlockStops = []int{2, 3, 4, 5, 6, 7}
	}
	bud := Budget{"update": 1, "bid": 4, "mod": 1, "block": 4, "tick": 2}
	if tier != "thorough" {
		bud = Budget{"update": 1, "bid": 3, "mod": 1, "block": 4, "tick": 0}
		if period == 0 {
			bud["tick"] = 2
		}
		if period == 2 {
			// 3 and 5 lie strictly inside the extended rounds [2,4) and [4,6)
			al.BlockStops = []int{2, 3, 4, 5, 6}
		}
	}
	if period == 1 {
		// governance changes the extension period between rounds (1 -> 2 days)
		al.ParamUpdates = []Op{{Kind: "update_params", Authority: "gov", ExtPeriod: 2}}
		bud["params"] = 1
		bud["update"] = 0
		bud["mod"] = 0
		al.BlockStops = []int{2, 3, 4, 5, 6}
	}
	return scenFrom(fmt.Sprintf("S2c-extension-rate%s-period%d", rate, period), cfg, pre, bud, al, nil)
}

// withBudget overrides budgets (used to build the smaller state sets on which the wide probe and
// query alphabets are applied).
func (s *Scenario) withBudget(b Budget, suffix string) *Scenario {
	for k, v := range b {
		s.Budget[k] = v
	}
	s.Name += suffix
	return s
}

// withFeeChanges: governance changes both fees (to other denominations, or to none) while auctions
// are waiting or open; whoever pays a fee afterwards pays the fee in force at that moment.
func (s *Scenario) withFeeChanges() *Scenario {
	s.al.ParamUpdates = append(s.al.ParamUpdates,
		Op{Kind: "update_params", Authority: "gov", CreationFee: "3acoin", BidFee: "2acoin", ExtPeriod: 1},
		Op{Kind: "update_params", Authority: "gov", ExtPeriod: 1})
	s.Budget["params"] = 1
	s.Name += "+feechange"
	return s
}

// withProbes adds the C18 field-alphabet probes to the menu of every state.
func (s *Scenario) withProbes(pairs bool) *Scenario {
	inner := s.Menu
	s.Menu = func(st *ref.State, b Budget) []Op {
		return append(inner(st, b), Probes(st, pairs)...)
	}
	s.Budget["probe"] = 1
	s.Name += "+probes"
	if pairs {
		s.Name += "-pairs"
	}
	s.Params["probes"] = map[string]any{"pairs": pairs}
	return s
}

// S3x: two auctions of the SAME kind and denominations created in the preamble (twin fixed-price
// auctions), same bidders allow-listed with different caps: the sharpest setting for "a bidder's
// allowance and bids in one auction never affect what the same bidder may do in another".
func S3x(tier string) *Scenario {
	cfg := world.Config{Balances: stdBalances(), Params: params("", "1bcoin", 1)}
	pre := []Op{
		{Kind: "create_fixed", Signer: "auc1", StartPrice: "1", Sell: "10acoin", PayDenom: "bcoin", StartK: 0, EndK: 2},
		{Kind: "create_fixed", Signer: "auc1", StartPrice: "1", Sell: "10acoin", PayDenom: "bcoin", StartK: 0, EndK: 3, Sched: sched(4, 5)},
		{Kind: "add_allowed", AID: 0, Bidder: "bid1", Max: "5"},
		{Kind: "add_allowed", AID: 1, Bidder: "bid1", Max: "5"},
		{Kind: "add_allowed", AID: 1, Bidder: "bid2", Max: "10"},
	}
	al := &Alphabet{
		Bidders: []string{"bid1", "bid2"}, AllowBidders: []string{"bid1", "bid2"},
		AllowCaps: []string{"10"}, UpdateCaps: []string{"2"},
		FixedAmts:  fixedAmtsS3x(tier),
		Cancellers: []string{"auc1"},
		MaxK:       6, BlockStops: []int{2, 3, 4, 5}, Rejects: true, RejectsTerm: true,
	}
	bud := Budget{"allow": 1, "update": 1, "bid": 3, "block": 4}
	if tier == "thorough" {
		bud = Budget{"allow": 1, "update": 1, "bid": 5, "block": 4, "tick": 1}
	}
	return scenFrom("S3x-twin-fixed", cfg, pre, bud, al, nil)
}

// S1p: a bidder who can barely pay: "insufficient funds" for the fee and for the reservation is
// reached through history, on a fixed-price and on a batch auction.
func S1p(tier string) *Scenario {
	cfg := world.Config{Balances: stdBalances(), Params: params("", "1bcoin", 1)}
	pre := []Op{
		{Kind: "create_fixed", Signer: "auc1", StartPrice: "1", Sell: "10acoin", PayDenom: "bcoin", StartK: 0, EndK: 2},
		{Kind: "create_batch", Signer: "auc1", StartPrice: "1", MinPrice: "0.5", Sell: "10acoin", PayDenom: "bcoin", StartK: 0, EndK: 2, MaxExt: 0, Rate: "0.5"},
		{Kind: "add_allowed", AID: 0, Bidder: "poor", Max: "10"},
		{Kind: "add_allowed", AID: 1, Bidder: "poor", Max: "10"},
	}
	al := &Alphabet{
		Bidders: []string{"poor"}, FixedAmts: []string{"1", "2"},
		BatchPrices: []string{"1"}, WorthAmts: []string{"1", "2"}, ManyAmts: []string{"1", "2"},
		ModPrices: []string{"2"}, ModAmts: []string{"3"},
		MaxK: 3, BlockStops: []int{2, 3},
	}
	bud := Budget{"bid": 3, "mod": 2, "block": 2}
	return scenFrom("S1p-poor-bidder", cfg, pre, bud, al, nil)
}

func fixedAmtsS3x(tier string) []string {
	if tier == "thorough" {
		return []string{"2", "3", "5"}
	}
	return []string{"2", "5"}
}

// tagged marks a scenario for monitors that switch an expensive sub-check per scenario.
func (s *Scenario) tagged(tag string) *Scenario {
	if s.Tags == nil {
		s.Tags = map[string]bool{}
	}
	s.Tags[tag] = true
	return s
}

// S2e: a batch auction whose first instalment is released at instant 3 — right after the first end
// time (2) but not after the extended ones (3, 4) — with two extension rounds; plus several bidders
// and several bids, so that exported states hold >1 allow-list entry, >1 bid and >1 instalment.
func S2e(tier string) *Scenario {
	cfg := world.Config{Balances: stdBalances(), Params: params("", "", 1)}
	pre := []Op{
		{Kind: "create_batch", Signer: "auc1", StartPrice: "1", MinPrice: "0.5", Sell: "6acoin", PayDenom: "bcoin", StartK: 0, EndK: 2, Sched: sched(3, 6), MaxExt: 2, Rate: "0.5"},
		{Kind: "add_allowed", AID: 0, Bidder: "bid1", Max: "6"},
		{Kind: "add_allowed", AID: 0, Bidder: "bid2", Max: "6"},
	}
	al := &Alphabet{
		Bidders: []string{"bid1", "bid2"}, AllowBidders: []string{"bid1", "bid2"},
		UpdateCaps:  []string{"1"},
		BatchPrices: []string{"1", "2"}, ManyAmts: []string{"1", "3"}, WorthAmts: []string{"4"},
		ModPrices: []string{"3"},
		MaxK:      7, BlockStops: []int{2, 3, 4, 5, 6, 7},
	}
	// governance may set the extension period to 0 (a valid value that a genesis file can carry)
	al.ParamUpdates = []Op{{Kind: "update_params", Authority: "gov", ExtPeriod: 0}}
	bud := Budget{"update": 1, "bid": 3, "mod": 1, "block": 5, "params": 1}
	return scenFrom("S2e-batch-early-release", cfg, pre, bud, al, nil)
}

// S2m: chains — the same bid modified two and three times (price, then amount, then both), a cap
// lowered, used and raised again, around one extension round, so that anything carried over from an
// earlier modification or cap change (a stale reservation, a cached total) reaches a settlement.
func S2m(tier string) *Scenario {
	cfg := world.Config{Balances: stdBalances(), Params: params("", "1bcoin", 1)}
	pre := []Op{
		{Kind: "create_batch", Signer: "auc1", StartPrice: "1", MinPrice: "0.5", Sell: "10acoin", PayDenom: "bcoin", StartK: 0, EndK: 2, Sched: sched(4, 5), MaxExt: 1, Rate: "0.5"},
		{Kind: "add_allowed", AID: 0, Bidder: "bid1", Max: "10"},
		{Kind: "add_allowed", AID: 0, Bidder: "bid2", Max: "10"},
	}
	al := &Alphabet{
		Bidders: []string{"bid1", "bid2"}, AllowBidders: []string{"bid1"},
		UpdateCaps:  []string{"3", "8"},
		BatchPrices: []string{"1"}, WorthAmts: []string{"4"}, ManyAmts: []string{"2"},
		ModPrices: []string{"1", "2"}, ModAmts: []string{"4", "6"},
		MaxK: 6, BlockStops: []int{2, 3, 5},
	}
	bud := Budget{"update": 2, "bid": 2, "mod": 3, "block": 3}
	if tier == "thorough" {
		al.ModPrices = []string{"1", "2", "3"}
		al.ModAmts = []string{"2", "4", "6", "9"}
		al.BlockStops = []int{2, 3, 4, 5}
		bud = Budget{"update": 2, "bid": 3, "mod": 4, "block": 4, "tick": 1}
	}
	return scenFrom("S2m-batch-modification-chains", cfg, pre, bud, al, nil).tagged("ledger")
}

// S11: a long book. Twelve bids are placed in the preamble (no branching), so that bid ids reach two
// digits, several bids share a price across one- and two-digit ids, one bidder's cap is exceeded by
// their own bids, and listings have more than ten elements; the menu then adds a little and settles
// through one extension round. Anything that orders, pages or sums bids by a derived key meets ids >= 10 here.
func S11(tier string) *Scenario {
	cfg := world.Config{Balances: map[string]sdk.Coins{
		"auc1": coins("60acoin,10bcoin"), "bid1": coins("400bcoin"), "bid2": coins("400bcoin"), "bid3": coins("400bcoin"),
	}, Params: params("", "", 1)}
	many := func(b, price, amt string) Op {
		return Op{Kind: "place", Signer: b, AID: 0, BidType: ref.BidMany, Price: price, Denom: "acoin", Amt: amt}
	}
	worth := func(b, price, amt string) Op {
		return Op{Kind: "place", Signer: b, AID: 0, BidType: ref.BidWorth, Price: price, Denom: "bcoin", Amt: amt}
	}
	pre := []Op{
		{Kind: "create_batch", Signer: "auc1", StartPrice: "1", MinPrice: "0.1", Sell: "30acoin", PayDenom: "bcoin", StartK: 0, EndK: 2, Sched: sched(4, 5), MaxExt: 1, Rate: "0.5"},
		{Kind: "add_allowed", AID: 0, Bidder: "bid1", Max: "30"},
		{Kind: "add_allowed", AID: 0, Bidder: "bid2", Max: "12"},
		{Kind: "add_allowed", AID: 0, Bidder: "bid3", Max: "30"},
		many("bid1", "3", "2"), many("bid2", "2", "3"), worth("bid3", "2", "6"), many("bid1", "1", "4"),
		many("bid2", "1.5", "3"), worth("bid1", "1", "5"), many("bid3", "2.5", "2"), many("bid2", "1", "4"),
		worth("bid3", "0.5", "4"), many("bid1", "2", "3"), many("bid3", "2", "5"), many("bid2", "2", "4"),
	}
	al := &Alphabet{
		Bidders: []string{"bid1", "bid2"}, AllowBidders: []string{"bid2"},
		UpdateCaps:  []string{"5"},
		BatchPrices: []string{"2"}, WorthAmts: []string{"6"}, ManyAmts: []string{"3"},
		ModPrices: []string{"3"},
		MaxK:      6, BlockStops: []int{2, 3, 5},
	}
	bud := Budget{"update": 1, "bid": 1, "mod": 1, "block": 3}
	if tier == "thorough" {
		al.BatchPrices = []string{"1", "2"}
		bud = Budget{"update": 1, "bid": 2, "mod": 2, "block": 4}
	}
	return scenFrom("S11-twelve-bid-book", cfg, pre, bud, al, nil).tagged("ledger")
}

// S12: eleven small fixed-price auctions created in the preamble by two auctioneers (ids 0..10), with
// different end times and two vesting schedules; bidders listed in a one-digit and the two-digit id.
// The block hook, the queries and the id assignment meet more than ten auctions here.
func S12(tier string) *Scenario {
	cfg := world.Config{Balances: map[string]sdk.Coins{
		"auc1": coins("40acoin"), "auc2": coins("40acoin"), "bid1": coins("40acoin,40bcoin"), "bid2": coins("40acoin,40bcoin"),
	}, Params: params("", "", 1)}
	var pre []Op
	for i := 0; i < 11; i++ {
		op := Op{Kind: "create_fixed", Signer: []string{"auc1", "auc2"}[i%2], StartPrice: "1", Sell: "2acoin", PayDenom: "bcoin", StartK: 0, EndK: 2 + i%2}
		if i == 2 || i == 10 {
			op.Sched = sched(4, 5)
		}
		if i == 5 {
			op.StartK = 2 // still waiting at the first blocks
			op.EndK = 4
		}
		pre = append(pre, op)
	}
	pre = append(pre,
		Op{Kind: "add_allowed", AID: 2, Bidder: "bid1", Max: "2"},
		Op{Kind: "add_allowed", AID: 10, Bidder: "bid1", Max: "2"},
		Op{Kind: "add_allowed", AID: 10, Bidder: "bid2", Max: "1"},
		Op{Kind: "add_allowed", AID: 9, Bidder: "bid2", Max: "2"},
	)
	al := &Alphabet{
		Bidders: []string{"bid1", "bid2"}, FixedAmts: []string{"1", "2"},
		Cancellers: []string{"auc2"},
		Creates:    []Op{{Kind: "create_fixed", Signer: "auc1", StartPrice: "1", Sell: "2acoin", PayDenom: "bcoin", StartK: 0, EndK: 5}},
		MaxK:       5, BlockStops: []int{2, 3, 4, 5},
	}
	bud := Budget{"bid": 2, "block": 3, "create": 1, "cancel": 1}
	if tier == "thorough" {
		bud = Budget{"bid": 3, "block": 4, "create": 1, "cancel": 1, "tick": 1}
	}
	return scenFrom("S12-eleven-auctions", cfg, pre, bud, al, nil)
}

// S13: more than a hundred bids in one auction (104 placed in the preamble, the menu adds one or two),
// two bidders alternating, so that bid ids pass 100 (the SDK's default page size, a three-digit id)
// before the settlement walks them.
func S13(tier string, batch bool) *Scenario {
	cfg := world.Config{Balances: map[string]sdk.Coins{
		"auc1": coins("400acoin"), "bid1": coins("1000bcoin"), "bid2": coins("1000bcoin"),
	}, Params: params("", "", 1)}
	var pre []Op
	name := "S13-hundred-bids-fixed"
	if batch {
		name = "S13-hundred-bids-batch"
		pre = append(pre, Op{Kind: "create_batch", Signer: "auc1", StartPrice: "1", MinPrice: "0.5", Sell: "150acoin", PayDenom: "bcoin", StartK: 0, EndK: 2, Sched: sched(3, 4), MaxExt: 0, Rate: "0.5"})
	} else {
		pre = append(pre, Op{Kind: "create_fixed", Signer: "auc1", StartPrice: "2", Sell: "300acoin", PayDenom: "bcoin", StartK: 0, EndK: 2, Sched: sched(3, 4)})
	}
	pre = append(pre,
		Op{Kind: "add_allowed", AID: 0, Bidder: "bid1", Max: "120"},
		Op{Kind: "add_allowed", AID: 0, Bidder: "bid2", Max: "110"}, // the preamble's bids stay below both caps: every one is accepted
	)
	prices := []string{"2", "3", "1", "2", "1.5"}
	for i := 0; i < 104; i++ {
		b := []string{"bid1", "bid2"}[i%2]
		amt := fmt.Sprint(1 + i%2)
		if batch {
			pre = append(pre, Op{Kind: "place", Signer: b, AID: 0, BidType: ref.BidMany, Price: prices[i%5], Denom: "acoin", Amt: amt})
		} else {
			pre = append(pre, Op{Kind: "place", Signer: b, AID: 0, BidType: ref.BidFixed, Price: "2", Denom: "acoin", Amt: amt})
		}
	}
	al := &Alphabet{Bidders: []string{"bid1", "bid2"}, MaxK: 4, BlockStops: []int{2, 3, 4}}
	if batch {
		al.BatchPrices, al.ManyAmts, al.WorthAmts = []string{"2"}, []string{"2"}, []string{"5"}
	} else {
		al.FixedAmts = []string{"2"}
	}
	bud := Budget{"bid": 1, "block": 3}
	if tier == "thorough" {
		bud = Budget{"bid": 2, "block": 3, "tick": 1}
	}
	return scenFrom(name, cfg, pre, bud, al, nil).tagged("ledger")
}

// S14: more than a hundred auctions alive at once (103 waiting fixed-price auctions created in the
// preamble by two auctioneers, the last ones with a vesting schedule; thorough: the menu creates one more): the
// block hook has to open, settle and pay out every one of them, the 101st included.
func S14(tier string) *Scenario {
	cfg := world.Config{Balances: map[string]sdk.Coins{
		"auc1": coins("120acoin"), "auc2": coins("120acoin"), "bid1": coins("40acoin,40bcoin"),
	}, Params: params("", "", 1)}
	var pre []Op
	for i := 0; i < 103; i++ {
		op := Op{Kind: "create_fixed", Signer: []string{"auc1", "auc2"}[i%2], StartPrice: "1", Sell: "1acoin", PayDenom: "bcoin", StartK: 2, EndK: 3}
		if i >= 100 {
			op.Sched = sched(4, 5)
		}
		pre = append(pre, op)
	}
	pre = append(pre,
		Op{Kind: "add_allowed", AID: 1, Bidder: "bid1", Max: "1"},
		Op{Kind: "add_allowed", AID: 101, Bidder: "bid1", Max: "1"},
		Op{Kind: "add_allowed", AID: 102, Bidder: "bid1", Max: "1"},
	)
	al := &Alphabet{
		Bidders: []string{"bid1"}, FixedAmts: []string{"1"},
		MaxK: 5, BlockStops: []int{2, 3, 4, 5},
	}
	bud := Budget{"bid": 2, "block": 3}
	if tier == "thorough" {
		al.Creates = []Op{{Kind: "create_fixed", Signer: "auc1", StartPrice: "1", Sell: "1acoin", PayDenom: "bcoin", StartK: 2, EndK: 3}}
		bud["create"] = 1
	}
	return scenFrom("S14-hundred-live-auctions", cfg, pre, bud, al, nil)
}

// withMalformedBids also offers, on every open auction, bids whose kind is 0 or unknown.
func (s *Scenario) withMalformedBids() *Scenario {
	if s.al != nil {
		s.al.MalformedBids = true
	}
	s.Name += "+malformed"
	return s
}

// withReimport offers, once per history, a restart of the chain from its own exported state (reversed:
// also from a file whose bid / allow-list / instalment lists are in the opposite order).
func (s *Scenario) withReimport(reversed bool) *Scenario {
	if s.al != nil {
		s.al.Reimport = 1
		if reversed {
			s.al.Reimport = 2
		}
	}
	s.Budget["reimport"] = 1
	s.Name += "+reimport"
	return s
}

// withEntryIDMismatch also offers AddAllowedBidders calls whose entry carries another auction's id.
func (s *Scenario) withEntryIDMismatch() *Scenario {
	if s.al != nil {
		s.al.EntryIDMismatch = true
	}
	s.Name += "+entryid"
	return s
}

// withMsgAddAllow offers MsgAddAllowedBidder (signed by the would-be bidder) in every state, for
// every bidder of the alphabet plus an outsider.
func (s *Scenario) withMsgAddAllow() *Scenario {
	if s.al != nil {
		s.al.MsgAddAllow = true
		has := false
		for _, b := range s.al.Bidders {
			if b == "out1" {
				has = true
			}
		}
		if !has {
			s.al.Bidders = append(s.al.Bidders, "out1")
		}
		s.Budget["msgallow"] = 1
		s.Name += "+msgallow"
	}
	return s
}

// S1d / S2d: donations (I2). A third party sends coins straight to an escrow address at any moment;
// exactness is then required of the remainder (C01's excess rule) and every sweep must be accounted
// for (C02), and no block may fail because of them (C07).
func S1d(tier string) *Scenario {
	s := S1a(tier, true)
	s.al.Creates = s.al.Creates[:0]
	for _, sc := range [][]Sched{nil, sched(3, 4)} {
		s.al.Creates = append(s.al.Creates, Op{Kind: "create_fixed", Signer: "auc1", StartPrice: "3", Sell: "10acoin", PayDenom: "bcoin", StartK: 1, EndK: 2, Sched: sc})
	}
	s.al.Donate = []Op{
		{Kind: "donate", Signer: "donor", To: "sell", Coin: "1acoin"},
		{Kind: "donate", Signer: "donor", To: "sell", Coin: "1bcoin"},
		{Kind: "donate", Signer: "donor", To: "pay", Coin: "2bcoin"},
		{Kind: "donate", Signer: "donor", To: "vest", Coin: "1bcoin"},
	}
	s.al.FixedAmts = []string{"7"}
	s.al.AllowCaps = []string{"10"}
	s.Budget = Budget{"create": 1, "allow": 1, "update": 0, "bid": 1, "cancel": 1, "block": 4, "tick": 0, "donate": 2}
	if tier == "thorough" {
		s.Budget = Budget{"create": 1, "allow": 1, "update": 0, "bid": 2, "cancel": 1, "block": 5, "tick": 1, "donate": 2}
	}
	s.Name = "S1d-fixed-donations"
	return s
}

func S2d(tier string) *Scenario {
	s := S2b(tier, 1, false)
	s.al.Donate = []Op{
		{Kind: "donate", Signer: "donor", To: "sell", Coin: "1acoin"},
		{Kind: "donate", Signer: "donor", To: "pay", Coin: "2bcoin"},
		{Kind: "donate", Signer: "donor", To: "pay", Coin: "1acoin"},
		{Kind: "donate", Signer: "donor", To: "vest", Coin: "1bcoin"},
	}
	s.al.BatchPrices = []string{"0.5", "3"}
	s.al.WorthAmts = []string{"7"}
	s.al.ManyAmts = []string{"3"}
	s.al.ModPrices, s.al.ModAmts = nil, nil
	s.Budget = Budget{"update": 0, "bid": 2, "mod": 0, "block": 5, "donate": 2}
	s.Name = "S2d-batch-donations"
	return s
}

// S10: extremes. Prices 10^-18, 1, 10^18; amounts 1, 10^30, 2^200; balances to match. The point is
// C07 (no block may panic or fail whatever was accepted) with C01/C02 riding along in exact big integers.
func S10(tier string, batch bool) *Scenario {
	huge := "1606938044258990275541962092341162602522202993782792835301376" // 2^200
	big30 := "1000000000000000000000000000000"
	bal := func() sdk.Coins { return coins(huge + "0acoin," + huge + "0bcoin") }
	cfg := world.Config{Balances: map[string]sdk.Coins{"auc1": bal(), "bid1": bal(), "bid2": bal()}, Params: params("", "", 1)}
	prices := []string{"0.000000000000000001", "1", "1000000000000000000"}
	amts := []string{"1", big30, huge}
	var pre []Op
	name := "S10-extremes-fixed"
	al := &Alphabet{Bidders: []string{"bid1", "bid2"}, MaxK: 4, BlockStops: []int{2, 3, 4}}
	bud := Budget{"create": 1, "bid": 2, "block": 3}
	if batch {
		name = "S10-extremes-batch"
		for _, supply := range []string{big30, huge} {
			al.Creates = append(al.Creates, Op{Kind: "create_batch", Signer: "auc1", StartPrice: "1", MinPrice: "0.000000000000000001", Sell: supply + "acoin", PayDenom: "bcoin", StartK: 0, EndK: 2, MaxExt: 1, Rate: "0.5", Sched: sched(3, 4)})
		}
		al.BatchPrices = prices
		al.WorthAmts = amts
		al.ManyAmts = amts
		al.ModPrices = []string{"1000000000000000000"}
		bud["mod"] = 1
	} else {
		for _, p := range prices {
			al.Creates = append(al.Creates, Op{Kind: "create_fixed", Signer: "auc1", StartPrice: p, Sell: huge + "acoin", PayDenom: "bcoin", StartK: 0, EndK: 2, Sched: sched(3, 4)})
		}
		al.FixedAmts = amts
	}
	s := scenFrom(name, cfg, pre, bud, al, nil)
	// allow-list entries are created right after the auction (caps = the offered amount)
	inner := s.Menu
	s.Menu = func(st *ref.State, b Budget) []Op {
		for _, a := range st.Auctions {
			for _, bd := range []string{"bid1", "bid2"} {
				if st.AllowedOf(a.ID, addrOf(bd)) == nil && (a.Status == ref.StatusStarted) {
					return []Op{{Kind: "add_allowed", AID: a.ID, Bidder: bd, Max: a.SellAmt.String()}}
				}
			}
		}
		return inner(st, b)
	}
	return s
}

// S3e: a fixed-price auction with a LOWER id (whose accepted bids are flagged matched) next to a batch
// auction with two extension rounds and a low rate: the sharpest setting for state that is restored or
// derived per auction (last matched count) and for loops over "the bidder's bids" that must not stop at,
// or count, another auction's records.
func S3e(tier string) *Scenario {
	cfg := world.Config{Balances: stdBalances(), Params: params("", "", 1)}
	pre := []Op{
		{Kind: "create_fixed", Signer: "auc1", StartPrice: "1", Sell: "10acoin", PayDenom: "bcoin", StartK: 0, EndK: 6},
		// first release at 3: after the first end time (2) but not after the extended ones (3, 4)
		{Kind: "create_batch", Signer: "auc2", StartPrice: "1", MinPrice: "0.5", Sell: "4acoin", PayDenom: "bcoin", StartK: 0, EndK: 2, MaxExt: 2, Rate: "0.25", Sched: sched(3, 7)},
		{Kind: "add_allowed", AID: 0, Bidder: "bid1", Max: "3"},
		{Kind: "add_allowed", AID: 1, Bidder: "bid1", Max: "4"},
		{Kind: "add_allowed", AID: 1, Bidder: "bid2", Max: "4"},
	}
	al := &Alphabet{
		Bidders: []string{"bid1", "bid2"}, AllowBidders: []string{"bid1"},
		FixedAmts:   []string{"1", "2"},
		BatchPrices: []string{"1", "2"}, ManyAmts: []string{"1"},
		MaxK: 8, BlockStops: []int{2, 3, 4, 5, 7},
	}
	bud := Budget{"bid": 4, "block": 5}
	if tier == "thorough" {
		bud = Budget{"bid": 5, "block": 5, "tick": 1}
	}
	return scenFrom("S3e-fixed-then-batch-extended", cfg, pre, bud, al, nil)
}

// S5big: the boundary schedule of 100 instalments of 0.01 each (the documented maximum).
func S5big() *Scenario {
	var ws []string
	for i := 0; i < 100; i++ {
		ws = append(ws, "0.01")
	}
	s := S5("quick", ws, "n100")
	s.al.FixedAmts = []string{"1", "7", "10"}
	s.al.BlockStops = []int{2, 3, 4, 52, 101, 102, 103}
	s.al.MaxK = 103
	s.Budget = Budget{"bid": 2, "block": 5, "tick": 0}
	return s
}

// S2max: the round limit. A batch auction with the maximum of 30 extension rounds, extension period
// 0 and an empty or one-bid book: every block (+1 h ticks) is at an end time; the auction must extend
// exactly 30 times and settle at the 31st end time.
func S2max() *Scenario {
	cfg := world.Config{Balances: stdBalances(), Params: params("", "", 0)}
	pre := []Op{
		{Kind: "create_batch", Signer: "auc1", StartPrice: "1", MinPrice: "0.5", Sell: "4acoin", PayDenom: "bcoin", StartK: 0, EndK: 1, MaxExt: 30, Rate: "1"},
		{Kind: "add_allowed", AID: 0, Bidder: "bid1", Max: "4"},
	}
	al := &Alphabet{Bidders: []string{"bid1"}, BatchPrices: []string{"1"}, ManyAmts: []string{"1"}, MaxK: 1, BlockStops: []int{1}}
	bud := Budget{"bid": 1, "block": 1, "tick": 34}
	return scenFrom("S2max-30-rounds-period0", cfg, pre, bud, al, nil)
}

// S3r: the mirror of S3 for block processing: the LOWEST-id auction is the short, cancellable one
// (fixed price, starts at 1, ends at 3, no vesting), followed by a batch auction with an extension round
// and vesting. Gives status vectors with a cancelled / finished auction in the first position while
// later ones are still waiting, open or vesting.
func S3r(tier string) *Scenario {
	cfg := world.Config{Balances: stdBalances(), Params: params("", "", 1)}
	pre := []Op{
		{Kind: "create_fixed", Signer: "auc2", StartPrice: "1", Sell: "5acoin", PayDenom: "bcoin", StartK: 1, EndK: 3},
		{Kind: "create_batch", Signer: "auc1", StartPrice: "1", MinPrice: "0.5", Sell: "10acoin", PayDenom: "bcoin", StartK: 2, EndK: 4, MaxExt: 1, Rate: "0.5", Sched: sched(6, 7)},
		{Kind: "add_allowed", AID: 0, Bidder: "bid1", Max: "5"},
		{Kind: "add_allowed", AID: 1, Bidder: "bid1", Max: "10"},
		{Kind: "add_allowed", AID: 1, Bidder: "bid2", Max: "4"},
	}
	al := &Alphabet{
		Bidders:   []string{"bid1", "bid2"},
		FixedAmts: []string{"3"}, BatchPrices: []string{"1", "2"}, WorthAmts: []string{"6"}, ManyAmts: []string{"3"},
		Cancellers: []string{"auc2", "auc1"},
		MaxK:       8, BlockStops: []int{1, 2, 3, 4, 5, 6, 7, 8},
	}
	bud := Budget{"bid": 2, "cancel": 1, "block": 6}
	if tier == "thorough" {
		bud = Budget{"bid": 3, "cancel": 1, "block": 7, "tick": 1}
	}
	return scenFrom("S3r-short-auction-first", cfg, pre, bud, al, nil)
}

// S4w: four price levels. Books of up to 4 bids over prices {1,2,3,10} so that the clearing-price
// search runs over 4 distinct levels (its probe path differs from the 2- and 3-level cases), with a
// dust-maker level (10) and a worth bid that converts to different quantities at every level.
func S4w(tier string) *Scenario {
	s := S4(tier, "5", "5", "5", false)
	s.al.BatchPrices = []string{"1", "2", "3", "10"}
	s.al.WorthAmts = []string{"1", "5"}
	s.al.ManyAmts = []string{"3"}
	s.al.Bidders = []string{"bid1", "bid2"}
	s.Preamble = s.Preamble[:3]
	s.Budget = Budget{"bid": 4, "block": 1}
	s.Name = "S4w-orderbook-4-levels"
	return s
}

// S10p: extreme parameters. Governance (the only signer MsgUpdateParams accepts) sets the extension
// period to a huge value; a batch auction then reaches an end time at which it must be extended.
// Whatever the node accepted must not make a block fail.
func S10p() *Scenario {
	cfg := world.Config{Balances: stdBalances(), Params: params("", "", 1)}
	pre := []Op{
		{Kind: "create_batch", Signer: "auc1", StartPrice: "1", MinPrice: "0.5", Sell: "4acoin", PayDenom: "bcoin", StartK: 0, EndK: 2, MaxExt: 2, Rate: "0.5", Sched: sched(5, 6)},
		{Kind: "add_allowed", AID: 0, Bidder: "bid1", Max: "4"},
	}
	al := &Alphabet{
		Bidders: []string{"bid1"}, BatchPrices: []string{"1"}, ManyAmts: []string{"1"},
		ParamUpdates: []Op{
			{Kind: "update_params", Authority: "gov", ExtPeriod: 4294967295},
			{Kind: "update_params", Authority: "gov", ExtPeriod: 4000000},
			{Kind: "update_params", Authority: "gov", ExtPeriod: 3650},
			{Kind: "update_params", Authority: "gov", ExtPeriod: 0},
		},
		MaxK: 4, BlockStops: []int{2, 3, 4},
	}
	bud := Budget{"bid": 1, "block": 3, "params": 2, "tick": 1}
	return scenFrom("S10p-extreme-params", cfg, pre, bud, al, nil)
}

// S1f: fees charged in the SELLING denomination (the auctioneer pays the creation fee and escrows the
// offered amount in one denom; bidders pay a fee in a denom they also receive).
func S1f(tier string) *Scenario {
	s := S1a(tier, true)
	s.Cfg.Params = params("2acoin", "1acoin", 1)
	s.Name = "S1f-fixed-lifecycle-fee-in-selling-denom"
	return s
}

// S2o: an account with two roles. The auctioneer is allow-listed in their OWN batch auction and bids in
// it next to an ordinary bidder (allocations, refunds, unsold coins and proceeds then all touch the
// same account), with vesting.
func S2o(tier string) *Scenario {
	cfg := world.Config{Balances: stdBalances(), Params: params("", "1bcoin", 1)}
	pre := []Op{
		{Kind: "create_batch", Signer: "auc1", StartPrice: "1", MinPrice: "0.5", Sell: "10acoin", PayDenom: "bcoin", StartK: 0, EndK: 2, MaxExt: 1, Rate: "0.5", Sched: sched(5, 6)},
		{Kind: "add_allowed", AID: 0, Bidder: "auc1", Max: "10"},
		{Kind: "add_allowed", AID: 0, Bidder: "bid1", Max: "6"},
	}
	al := &Alphabet{
		Bidders: []string{"auc1", "bid1"}, AllowBidders: []string{"auc1", "bid1"},
		BatchPrices: []string{"0.5", "2"}, WorthAmts: []string{"7"}, ManyAmts: []string{"3", "8"},
		ModPrices: []string{"3"},
		MaxK:      7, BlockStops: []int{2, 3, 5, 6},
	}
	bud := Budget{"bid": 3, "mod": 1, "block": 4}
	return scenFrom("S2o-auctioneer-bids-in-own-auction", cfg, pre, bud, al, nil)
}
