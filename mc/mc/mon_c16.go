package mc

import (
	"bytes"
	"fmt"
	"math/big"
	"sort"

	sdk "github.com/cosmos/cosmos-sdk/types"
	"github.com/cosmos/cosmos-sdk/types/query"
	"github.com/cosmos/gogoproto/proto"

	fkeeper "github.com/tendermint/fundraising/x/fundraising/keeper"
	ftypes "github.com/tendermint/fundraising/x/fundraising/types"

	"verif/mc/ref"
	"verif/mc/world"
)

// -------------------------------------------------------------------------------------------
// C16 — published results agree with what was settled; queries return exactly the stored objects
// that satisfy the request.
// -------------------------------------------------------------------------------------------

type monC16 struct {
	st      *Stats
	queries bool
	seen    map[string]bool
}

func NewC16(queries bool) Monitor {
	return &monC16{st: NewStats(), queries: queries, seen: map[string]bool{}}
}
func (m *monC16) Prop() string  { return "C16" }
func (m *monC16) Stats() *Stats { return m.st }

func (m *monC16) OnTransition(t *Transition) []Violation {
	var vs []Violation
	bad := func(sig, f string, a ...any) {
		vs = append(vs, Violation{Prop: "C16", Sig: sig, Detail: fmt.Sprintf(f, a...)})
	}
	now := t.Post.Time
	trs := Transfers(t.Res.Events)
	if isBlock(t.Op) {
		for _, a := range t.Pre.Auctions {
			step := ref.StepOf(t.Pre, a, now)
			if step.Kind != ref.StepSettle {
				continue
			}
			pa := t.Post.Auction(a.ID)
			got := sellingReceipts(trs, a)
			if a.Type == ref.TypeBatch {
				cl := step.Clearing
				extended := len(a.EndTimes) > 1
				m.st.Inc("batch_settlements")
				if extended {
					m.st.Inc("batch_settlements_after_extension")
				}
				stale := false
				for _, b := range t.Post.Bids[a.ID] {
					pre := t.Pre.Bid(a.ID, b.ID)
					contributed := cl.Contribution[b.ID] != nil && cl.Contribution[b.ID].Sign() > 0
					// cross-check the reference with what the bidder actually received
					recv := got[b.Bidder]
					if recv == nil {
						recv = new(big.Int)
					}
					if recv.Sign() == 0 {
						contributed = false
					}
					if pre != nil && pre.Matched && !contributed {
						stale = true
					}
					if b.Matched != contributed {
						sig := "batch-flag/unmatched-bid-flagged"
						if contributed {
							sig = "batch-flag/matched-bid-not-flagged"
						} else if pre != nil && pre.Matched {
							sig = "batch-flag/stale-provisional-flag"
						}
						bad(sig, "auction %d settled with book %v: bid #%d is_matched=%v but it %s coins (bidder received %s)", a.ID, bookString(t.Pre, a), b.ID, b.Matched, boolStr(contributed, "contributed", "did not contribute"), recv)
					}
				}
				if stale {
					m.st.Inc("settlements_with_provisional_winner_outbid")
				}
				want := new(big.Rat)
				if !cl.Nothing {
					want = cl.Price
				}
				// use the quantity really delivered: if nothing was delivered the published price must be 0
				delivered := new(big.Int)
				for _, v := range got {
					delivered.Add(delivered, v)
				}
				if delivered.Sign() == 0 {
					want = new(big.Rat)
				}
				if pa.MatchedPrice.Cmp(want) != 0 {
					bad("matched-price/"+boolStr(want.Sign() == 0, "nothing-sold", "sold"), "auction %d settled at clearing price %s (delivered %s) but publishes matched_price %s", a.ID, want.FloatString(6), delivered, pa.MatchedPrice.FloatString(6))
				}
				m.st.Case("batch-settlement", t.Pre.RawModule+fmt.Sprint(a.ID))
				m.st.Sample(map[string]any{"book": bookString(t.Pre, a), "published_price": pa.MatchedPrice.FloatString(6), "clearing": want.FloatString(6)})
			} else {
				m.st.Inc("fixed_settlements")
				for _, b := range t.Post.Bids[a.ID] {
					received := ref.SellingAmount(b, a.PayDenom).Sign() > 0
					if b.Matched != received {
						bad("fixed-flag/"+boolStr(received, "paid-bid-not-flagged", "zero-coin-bid-flagged"), "auction %d: bid #%d (%s%s at %s) is_matched=%v but converts to %s coins", a.ID, b.ID, b.Amt, b.Denom, b.Price.FloatString(6), b.Matched, ref.SellingAmount(b, a.PayDenom))
					}
				}
				m.st.Case("fixed-settlement", t.Pre.RawModule+fmt.Sprint(a.ID))
			}
		}
	}
	// after settlement, published results never change
	for _, a := range t.Pre.Auctions {
		if a.Status != ref.StatusVesting && a.Status != ref.StatusFinished {
			continue
		}
		pa := t.Post.Auction(a.ID)
		if pa == nil {
			continue
		}
		if a.Type == ref.TypeBatch && pa.MatchedPrice.Cmp(a.MatchedPrice) != 0 {
			bad("matched-price-changed-after-settlement", "auction %d matched price changed after %v", a.ID, t.Op)
		}
		for _, b := range t.Pre.Bids[a.ID] {
			if nb := t.Post.Bid(a.ID, b.ID); nb == nil || nb.Raw != b.Raw {
				bad("bid-changed-after-settlement", "bid #%d of settled auction %d changed after %v", b.ID, a.ID, t.Op)
			}
		}
	}
	// released <=> paid
	for aid, qs := range t.Pre.VQs {
		a := t.Pre.Auction(aid)
		post := t.Post.VQs[aid]
		paid := new(big.Int)
		for _, tr := range trs {
			if a != nil && tr.From == a.VestAddr && tr.To == a.Auctioneer {
				paid.Add(paid, tr.Coins.Get(a.PayDenom))
			}
		}
		flipped := new(big.Int)
		for i, q := range qs {
			if i >= len(post) {
				continue
			}
			if q.Released && !post[i].Released {
				bad("released-flag-cleared", "instalment %d of auction %d lost its released flag after %v", i, aid, t.Op)
			}
			if !q.Released && post[i].Released {
				flipped.Add(flipped, q.Amt)
			}
		}
		if flipped.Cmp(paid) != 0 {
			bad("released-flag-vs-payment", "auction %d: instalments newly flagged released sum to %s but %s was paid in %v", aid, flipped, paid, t.Op)
		}
		if flipped.Sign() > 0 {
			m.st.Inc("release_flag_flips_checked")
		}
	}
	if m.queries && !t.Scen.Tags["noqueries"] && (t.Res.OK() || isBlock(t.Op)) && !m.seen[t.Post.RawModule] {
		m.seen[t.Post.RawModule] = true
		vs = append(vs, m.checkQueries(t)...)
	}
	return vs
}

// ---- query alphabet ----

func pmBytes(m proto.Message) []byte {
	bz, err := proto.Marshal(m)
	if err != nil {
		panic(err)
	}
	return bz
}

// paginateAll reassembles a listing through page size 1 + key continuation.
func paginateAll(call func(p *query.PageRequest) (n int, items [][]byte, next []byte, total uint64, err error)) ([][]byte, error) {
	var out [][]byte
	var key []byte
	for i := 0; i < 200; i++ {
		_, items, next, _, err := call(&query.PageRequest{Key: key, Limit: 1})
		if err != nil {
			return nil, err
		}
		out = append(out, items...)
		if len(next) == 0 {
			return out, nil
		}
		key = next
	}
	return nil, fmt.Errorf("pagination did not terminate")
}

func sameLists(a, b [][]byte) bool {
	if len(a) != len(b) {
		return false
	}
	for i := range a {
		if !bytes.Equal(a[i], b[i]) {
			return false
		}
	}
	return true
}

func (m *monC16) checkQueries(t *Transition) []Violation {
	var vs []Violation
	bad := func(sig, f string, a ...any) {
		vs = append(vs, Violation{Prop: "C16", Sig: sig, Detail: fmt.Sprintf(f, a...)})
	}
	s := t.Post
	ctx := t.PostCtx
	qs := fkeeper.NewQueryServerImpl(t.W.K)
	nq := 0
	count := func() { nq++; m.st.Inc("queries") }

	// --- by id ---
	ids := []uint64{}
	for _, a := range s.Auctions {
		ids = append(ids, a.ID)
	}
	missing := s.NextAuctionID + 7
	for _, id := range append(ids, missing) {
		r, err := qs.GetAuction(ctx, &ftypes.QueryGetAuctionRequest{AuctionId: id})
		count()
		a := s.Auction(id)
		if a == nil {
			if err == nil {
				bad("get-auction/missing-key-answered", "GetAuction(%d) answers although no such auction exists", id)
			}
			continue
		}
		if err != nil {
			bad("get-auction/error", "GetAuction(%d): %v", id, err)
			continue
		}
		if string(r.Auction.Value) != anyValue(a.Raw) {
			bad("get-auction/wrong-object", "GetAuction(%d) returns a different object than the stored one", id)
		}
	}
	for _, a := range s.Auctions {
		for _, b := range s.Bids[a.ID] {
			r, err := qs.GetBid(ctx, &ftypes.QueryGetBidRequest{AuctionId: a.ID, BidId: b.ID})
			count()
			if err != nil || string(pmBytes(&r.Bid)) != b.Raw {
				bad("get-bid/wrong-object", "GetBid(%d,%d): err=%v", a.ID, b.ID, err)
			}
		}
		if _, err := qs.GetBid(ctx, &ftypes.QueryGetBidRequest{AuctionId: a.ID, BidId: s.BidSeq[a.ID] + 5}); err == nil {
			bad("get-bid/missing-key-answered", "GetBid(%d,%d) answers although no such bid exists", a.ID, s.BidSeq[a.ID]+5)
		}
		count()
		for _, al := range s.Allowed[a.ID] {
			r, err := qs.GetAllowedBidder(ctx, &ftypes.QueryGetAllowedBidderRequest{AuctionId: a.ID, Bidder: al.Bidder})
			count()
			if err != nil || string(pmBytes(&r.AllowedBidder)) != al.Raw {
				bad("get-allowed-bidder/wrong-object", "GetAllowedBidder(%d,%s): err=%v", a.ID, world.NameOf(al.Bidder), err)
			}
		}
		if _, err := qs.GetAllowedBidder(ctx, &ftypes.QueryGetAllowedBidderRequest{AuctionId: a.ID, Bidder: world.A("donor").Bech32}); err == nil {
			bad("get-allowed-bidder/missing-key-answered", "GetAllowedBidder(%d, donor) answers although donor is not listed", a.ID)
		}
		count()
	}

	// --- ListAuction x status x type ---
	statuses := []string{"", "AUCTION_STATUS_STANDBY", "AUCTION_STATUS_STARTED", "AUCTION_STATUS_VESTING", "AUCTION_STATUS_FINISHED", "AUCTION_STATUS_CANCELLED"}
	types := []string{"", "AUCTION_TYPE_FIXED_PRICE", "AUCTION_TYPE_BATCH"}
	for _, stt := range statuses {
		for _, ty := range types {
			var want [][]byte
			for _, a := range s.Auctions {
				if stt != "" && ftypes.AuctionStatus(a.Status).String() != stt {
					continue
				}
				if ty != "" && ftypes.AuctionType(a.Type).String() != ty {
					continue
				}
				want = append(want, []byte(anyValue(a.Raw)))
			}
			call := func(p *query.PageRequest) (int, [][]byte, []byte, uint64, error) {
				r, err := qs.ListAuction(ctx, &ftypes.QueryAllAuctionRequest{Status: stt, Type: ty, Pagination: p})
				count()
				if err != nil {
					return 0, nil, nil, 0, err
				}
				var items [][]byte
				for _, x := range r.Auction {
					items = append(items, x.Value)
				}
				return len(items), items, r.Pagination.NextKey, r.Pagination.Total, nil
			}
			m.checkListing(&vs, "list-auction", fmt.Sprintf("status=%q type=%q", stt, ty), want, call)
		}
	}
	// --- ListBid x auction x bidder x is_matched ---
	for _, a := range s.Auctions {
		bidders := []string{""}
		seenB := map[string]bool{}
		for _, b := range s.Bids[a.ID] {
			if !seenB[b.Bidder] {
				seenB[b.Bidder] = true
				bidders = append(bidders, b.Bidder)
			}
		}
		for _, bd := range bidders {
			// every spelling strconv.ParseBool accepts is a valid value of the is_matched field
			for _, im := range []string{"", "true", "false", "1", "t", "T", "TRUE", "0", "f", "False"} {
				var want [][]byte
				for _, b := range s.Bids[a.ID] {
					if bd != "" && b.Bidder != bd {
						continue
					}
					if im != "" {
						wantFlag := im == "true" || im == "1" || im == "t" || im == "T" || im == "TRUE"
						if b.Matched != wantFlag {
							continue
						}
					}
					want = append(want, []byte(b.Raw))
				}
				aid, bd, im := a.ID, bd, im
				call := func(p *query.PageRequest) (int, [][]byte, []byte, uint64, error) {
					r, err := qs.ListBid(ctx, &ftypes.QueryAllBidRequest{AuctionId: aid, Bidder: bd, IsMatched: im, Pagination: p})
					count()
					if err != nil {
						return 0, nil, nil, 0, err
					}
					var items [][]byte
					for i := range r.Bid {
						items = append(items, pmBytes(&r.Bid[i]))
					}
					return len(items), items, r.Pagination.NextKey, r.Pagination.Total, nil
				}
				which := "auction"
				if bd != "" {
					which += "+bidder"
				}
				if im != "" {
					which += "+is_matched"
				}
				m.checkListing(&vs, "list-bid/"+which, fmt.Sprintf("auction=%d bidder=%s is_matched=%q", aid, world.NameOf(bd), im), want, call)
			}
		}
		// allow-list and instalments of this auction
		var wantAL, wantVQ [][]byte
		for _, al := range s.Allowed[a.ID] {
			wantAL = append(wantAL, []byte(al.Raw))
		}
		for _, q := range s.VQs[a.ID] {
			wantVQ = append(wantVQ, []byte(q.Raw))
		}
		aid := a.ID
		m.checkListing(&vs, "list-allowed-bidder/auction", fmt.Sprintf("auction=%d", aid), wantAL, func(p *query.PageRequest) (int, [][]byte, []byte, uint64, error) {
			r, err := qs.ListAllowedBidder(ctx, &ftypes.QueryAllAllowedBidderRequest{AuctionId: aid, Pagination: p})
			count()
			if err != nil {
				return 0, nil, nil, 0, err
			}
			var items [][]byte
			for i := range r.AllowedBidder {
				items = append(items, pmBytes(&r.AllowedBidder[i]))
			}
			return len(items), items, r.Pagination.NextKey, r.Pagination.Total, nil
		})
		m.checkListing(&vs, "list-vesting-queue/auction", fmt.Sprintf("auction=%d", aid), wantVQ, func(p *query.PageRequest) (int, [][]byte, []byte, uint64, error) {
			r, err := qs.ListVestingQueue(ctx, &ftypes.QueryAllVestingQueueRequest{AuctionId: aid, Pagination: p})
			count()
			if err != nil {
				return 0, nil, nil, 0, err
			}
			var items [][]byte
			for i := range r.VestingQueue {
				items = append(items, pmBytes(&r.VestingQueue[i]))
			}
			return len(items), items, r.Pagination.NextKey, r.Pagination.Total, nil
		})
	}
	m.st.Inc("states_queried")
	m.st.Case("queried-state", s.RawModule)
	_ = bad
	_ = sdk.Context{}
	return vs
}

// checkListing compares unlimited, offset and page-size-1 answers with the reference list.
func (m *monC16) checkListing(vs *[]Violation, name, req string, want [][]byte, call func(p *query.PageRequest) (int, [][]byte, []byte, uint64, error)) {
	bad := func(sig, f string, a ...any) {
		*vs = append(*vs, Violation{Prop: "C16", Sig: sig, Detail: fmt.Sprintf(f, a...)})
	}
	m.st.Inc("listings_checked")
	if len(want) > 0 {
		m.st.Inc("listings_nonempty")
	}
	_, all, _, total, err := call(&query.PageRequest{CountTotal: true})
	if err != nil {
		bad("query/"+name+"/error", "%s(%s): %v", name, req, err)
		return
	}
	if !sameLists(all, want) {
		bad("query/"+name+"/wrong-elements", "%s(%s) returns %d objects, the stored objects satisfying the request are %d (or differ / are ordered differently)", name, req, len(all), len(want))
		return
	}
	if total != uint64(len(want)) {
		bad("query/"+name+"/wrong-total", "%s(%s) reports total %d, expected %d", name, req, total, len(want))
	}
	if len(want) > 1 {
		paged, err := paginateAll(call)
		if err != nil {
			bad("query/"+name+"/pagination-error", "%s(%s) by key: %v", name, req, err)
		} else if !sameLists(paged, want) {
			bad("query/"+name+"/pagination-by-key", "%s(%s): page size 1 with key continuation reassembles %d objects, expected %d", name, req, len(paged), len(want))
		}
		// An offset page: the SDK's filtered pagination counts the offset over the unfiltered walk, so
		// which element comes back is the SDK's business; what the statement requires is that whatever
		// comes back is a stored object satisfying the request, in store order.
		_, off, _, _, err := call(&query.PageRequest{Offset: 1, Limit: 1})
		if err != nil || len(off) > 1 {
			bad("query/"+name+"/pagination-by-offset", "%s(%s): offset 1 limit 1 returns %d objects (err=%v)", name, req, len(off), err)
		}
		for _, o := range off {
			found := false
			for _, w := range want {
				if bytes.Equal(o, w) {
					found = true
				}
			}
			if !found {
				bad("query/"+name+"/pagination-by-offset", "%s(%s): offset 1 limit 1 returns an object that does not satisfy the request", name, req)
			}
		}
		// Reverse walk: the same stored objects (compared as a multiset; the order is the SDK's).
		_, rev, _, _, err := call(&query.PageRequest{Reverse: true})
		if err != nil {
			bad("query/"+name+"/reverse-error", "%s(%s) reverse: %v", name, req, err)
		} else if !sameMultiset(rev, want) {
			bad("query/"+name+"/reverse-wrong-elements", "%s(%s) with reverse=true returns %d objects, the stored objects satisfying the request are %d (or differ)", name, req, len(rev), len(want))
		}
		m.st.Inc("paginated_listings")
	}
}

func sameMultiset(a, b [][]byte) bool {
	if len(a) != len(b) {
		return false
	}
	x := make([]string, len(a))
	y := make([]string, len(b))
	for i := range a {
		x[i], y[i] = string(a[i]), string(b[i])
	}
	sort.Strings(x)
	sort.Strings(y)
	for i := range x {
		if x[i] != y[i] {
			return false
		}
	}
	return true
}

// anyValue strips the Any envelope of a stored auction (type URL + value) and returns the value bytes.
func anyValue(raw string) string {
	// stored form is a marshalled google.protobuf.Any: field 1 (type_url), field 2 (value)
	b := []byte(raw)
	i := 0
	for i < len(b) {
		tag := b[i]
		i++
		// both fields are length-delimited
		l, n := uvarint(b[i:])
		i += n
		if tag == 0x12 {
			return string(b[i : i+int(l)])
		}
		i += int(l)
	}
	return ""
}

func uvarint(b []byte) (uint64, int) {
	var x uint64
	var s uint
	for i, c := range b {
		if c < 0x80 {
			return x | uint64(c)<<s, i + 1
		}
		x |= uint64(c&0x7f) << s
		s += 7
	}
	return 0, 0
}
