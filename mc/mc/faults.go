package mc

import (
	"context"
	"errors"
	"fmt"

	"cosmossdk.io/log"
	"github.com/cosmos/cosmos-sdk/runtime"
	sdk "github.com/cosmos/cosmos-sdk/types"
	banktypes "github.com/cosmos/cosmos-sdk/x/bank/types"

	fkeeper "github.com/tendermint/fundraising/x/fundraising/keeper"
	fmodule "github.com/tendermint/fundraising/x/fundraising/module"
	ftypes "github.com/tendermint/fundraising/x/fundraising/types"

	"verif/mc/ref"
	"verif/mc/world"
)

// ErrInjected is the error the fault-injecting bank wrapper returns.
var ErrInjected = errors.New("verif: injected bank failure")

// faultBank wraps the application's real bank keeper; the FailAt-th mutating call (0-based) returns
// ErrInjected instead of executing. Read-only calls pass through and are not counted.
type faultBank struct {
	ftypes.BankKeeper
	Calls  int
	FailAt int // -1: never
	Log    []string
}

func (b *faultBank) hit(what string) bool {
	i := b.Calls
	b.Calls++
	b.Log = append(b.Log, what)
	return i == b.FailAt
}

func (b *faultBank) SendCoins(ctx context.Context, from, to sdk.AccAddress, amt sdk.Coins) error {
	if b.hit(fmt.Sprintf("SendCoins %s->%s %s", world.NameOf(from.String()), world.NameOf(to.String()), amt)) {
		return ErrInjected
	}
	return b.BankKeeper.SendCoins(ctx, from, to, amt)
}

func (b *faultBank) InputOutputCoins(ctx context.Context, in banktypes.Input, outs []banktypes.Output) error {
	if b.hit(fmt.Sprintf("InputOutputCoins %s %s", world.NameOf(in.Address), in.Coins)) {
		return ErrInjected
	}
	return b.BankKeeper.InputOutputCoins(ctx, in, outs)
}

func (b *faultBank) SendCoinsFromAccountToModule(ctx context.Context, from sdk.AccAddress, m string, amt sdk.Coins) error {
	if b.hit("SendCoinsFromAccountToModule") {
		return ErrInjected
	}
	return b.BankKeeper.SendCoinsFromAccountToModule(ctx, from, m, amt)
}

// keeperWith builds a second real keeper over the application's own fundraising store with the given
// bank keeper and listeners (every seam is a constructor argument; nothing in /repo is modified).
func keeperWith(w *world.World, bank ftypes.BankKeeper, hooks ftypes.FundraisingHooks) fkeeper.Keeper {
	a := w.App
	k := fkeeper.NewKeeper(a.AppCodec(), a.AccountKeeper.AddressCodec(), runtime.NewKVStoreService(a.GetKey(ftypes.StoreKey)),
		log.NewNopLogger(), a.FundraisingKeeper.GetAuthority(), a.AccountKeeper, bank, a.DistrKeeper)
	if hooks != nil {
		k.SetHooks(hooks)
	}
	return k
}

// blockWith runs the real module's BeginBlock over keeper k on a fresh branch of ctx.
func blockWith(w *world.World, k fkeeper.Keeper, ctx sdk.Context) (err error, panicked string) {
	am := fmodule.NewAppModule(w.App.AppCodec(), k, w.App.AccountKeeper, w.App.BankKeeper)
	defer func() {
		if r := recover(); r != nil {
			panicked = fmt.Sprint(r)
		}
	}()
	return am.BeginBlock(ctx), ""
}

// C07(b): for every distinct (pre-state, block time) whose block makes bank calls, every call index
// is failed in turn; the block hook must return a non-nil error that wraps the injected one.
type monC07b struct {
	st   *Stats
	seen map[string]bool
}

func NewC07b() Monitor           { return &monC07b{st: NewStats(), seen: map[string]bool{}} }
func (m *monC07b) Prop() string  { return "C07" }
func (m *monC07b) Stats() *Stats { return m.st }

func (m *monC07b) OnTransition(t *Transition) []Violation {
	if t.Op.Kind != "block" && t.Op.Kind != "tick" {
		return nil
	}
	if t.Pre.RawModule == t.Post.RawModule && len(Transfers(t.Res.Events)) == 0 {
		return nil // nothing was processed: no bank call can fail
	}
	key := t.Pre.RawModule + "|" + t.Post.Time.String() + "|" + fmt.Sprint(t.Pre.Bal)
	if m.seen[key] {
		return nil
	}
	m.seen[key] = true
	hdr := t.PostCtx.BlockHeader()
	mk := func() sdk.Context {
		c, _ := t.PreCtx.CacheContext()
		return c.WithBlockHeader(hdr).WithEventManager(sdk.NewEventManager())
	}
	// counting run
	fb := &faultBank{BankKeeper: t.W.App.BankKeeper, FailAt: -1}
	err, pan := blockWith(t.W, keeperWith(t.W, fb, nil), mk())
	if pan != "" || err != nil {
		return nil // C07(a) reports this one
	}
	n := fb.Calls
	if n == 0 {
		return nil
	}
	m.st.Inc("fault_blocks")
	// which auction does each call belong to (position among the auctions)?
	var vs []Violation
	for k := 0; k < n; k++ {
		f := &faultBank{BankKeeper: t.W.App.BankKeeper, FailAt: k}
		err, pan := blockWith(t.W, keeperWith(t.W, f, nil), mk())
		m.st.Inc("fault_injections")
		pos := m.positionOf(t.Pre, fb.Log[k])
		m.st.Case("fault", key+fmt.Sprint(k))
		m.st.Inc("fault_position/" + pos)
		if k == 0 {
			m.st.Sample(map[string]any{"history": opsStr(t.History()), "bank_calls_of_block": fb.Log})
		}
		if pan != "" {
			vs = append(vs, Violation{Prop: "C07", Sig: "fault-panic/" + pos, Detail: fmt.Sprintf("bank call %d (%s) failing makes the block hook panic: %s", k, fb.Log[k], pan)})
			continue
		}
		if err == nil {
			vs = append(vs, Violation{Prop: "C07", Sig: "fault-swallowed/" + pos,
				Detail: fmt.Sprintf("bank call %d of %d (%s; %s auction of %d) returns an injected error but the block hook returns nil", k, n, fb.Log[k], pos, len(t.Pre.Auctions))})
		} else if !errors.Is(err, ErrInjected) {
			vs = append(vs, Violation{Prop: "C07", Sig: "fault-replaced/" + pos,
				Detail: fmt.Sprintf("bank call %d (%s) fails with the injected error but the block hook reports a different one: %v", k, fb.Log[k], err)})
		}
	}
	return vs
}

// positionOf says whether the failing call belongs to the first / middle / last auction in store
// order (by the escrow named in the call).
func (m *monC07b) positionOf(s *ref.State, call string) string {
	n := len(s.Auctions)
	for i, a := range s.Auctions {
		for _, role := range []string{"sell", "pay", "vest"} {
			if containsStr(call, fmt.Sprintf("%s#%d", role, a.ID)) {
				switch {
				case n == 1:
					return "only"
				case i == n-1:
					return "last"
				case i == 0:
					return "first"
				default:
					return "middle"
				}
			}
		}
	}
	return "unknown"
}

func containsStr(s, sub string) bool {
	for i := 0; i+len(sub) <= len(s); i++ {
		if s[i:i+len(sub)] == sub {
			return true
		}
	}
	return false
}
