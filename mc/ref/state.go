// Package ref is the boring reference model: plain Go structs, math/big integers and rationals.
// It never carries state of its own; every function takes an observed state (decoded from the real
// store by package world) and predicts one step.
package ref

import (
	"fmt"
	"math/big"
	"sort"
	"strings"
	"time"
)

const (
	StatusStandBy   = 1
	StatusStarted   = 2
	StatusVesting   = 3
	StatusFinished  = 4
	StatusCancelled = 5

	TypeFixed = 1
	TypeBatch = 2

	BidFixed = 1
	BidWorth = 2
	BidMany  = 3
)

var statusNames = map[int]string{0: "nil", 1: "standby", 2: "started", 3: "vesting", 4: "finished", 5: "cancelled"}

func StatusName(s int) string { return statusNames[s] }

type Schedule struct {
	Release time.Time
	Weight  *big.Rat
}

type Auction struct {
	ID         uint64
	Type       int
	Auctioneer string
	SellAddr   string
	PayAddr    string
	VestAddr   string
	StartPrice *big.Rat
	SellDenom  string
	SellAmt    *big.Int
	PayDenom   string
	Schedules  []Schedule
	Start      time.Time
	EndTimes   []time.Time
	Status     int
	// fixed price
	Remaining      *big.Int
	RemainingDenom string
	// batch
	MinBidPrice  *big.Rat
	MatchedPrice *big.Rat
	MaxExt       uint32
	Rate         *big.Rat
	// Raw is the stored encoding, for frame (byte-identity) checks.
	Raw string
}

func (a *Auction) LastEnd() time.Time { return a.EndTimes[len(a.EndTimes)-1] }

type Bid struct {
	AID     uint64
	ID      uint64
	Bidder  string
	Type    int
	Price   *big.Rat
	Denom   string
	Amt     *big.Int
	Matched bool
	Raw     string
}

type VQ struct {
	AID        uint64
	Auctioneer string
	Denom      string
	Amt        *big.Int
	Release    time.Time
	Released   bool
	Raw        string
}

type Allowed struct {
	AID    uint64
	Bidder string
	Max    *big.Int
	Raw    string
}

type Coins map[string]*big.Int

func (c Coins) Get(d string) *big.Int {
	if v, ok := c[d]; ok {
		return v
	}
	return new(big.Int)
}

func (c Coins) String() string {
	var ks []string
	for k, v := range c {
		if v.Sign() != 0 {
			ks = append(ks, k)
		}
	}
	sort.Strings(ks)
	var sb strings.Builder
	for i, k := range ks {
		if i > 0 {
			sb.WriteByte(',')
		}
		sb.WriteString(c[k].String() + k)
	}
	return sb.String()
}

type State struct {
	Time   time.Time
	Height int64

	CreationFee Coins
	BidFee      Coins
	ExtPeriod   uint32

	NextAuctionID uint64
	Auctions      []*Auction // ascending id
	Bids          map[uint64][]*Bid
	Allowed       map[uint64][]*Allowed // store order (by address bytes)
	VQs           map[uint64][]*VQ      // store order (by release time)
	BidSeq        map[uint64]uint64
	MatchedLen    map[uint64]int64 // only present keys

	Bal           map[string]Coins // tracked address -> coins
	CommunityPool map[string]*big.Rat
	Supply        Coins

	// RawByAuction groups every raw module-store entry that belongs to an auction (records, bids,
	// allow-list, instalments, counters), for the frame condition of C19.
	RawModule string // hex digest of the raw fundraising store dump
}

func (s *State) Auction(id uint64) *Auction {
	for _, a := range s.Auctions {
		if a.ID == id {
			return a
		}
	}
	return nil
}

func (s *State) Bid(aid, id uint64) *Bid {
	for _, b := range s.Bids[aid] {
		if b.ID == id {
			return b
		}
	}
	return nil
}

func (s *State) AllowedOf(aid uint64, bidder string) *Allowed {
	for _, a := range s.Allowed[aid] {
		if a.Bidder == bidder {
			return a
		}
	}
	return nil
}

func (s *State) BalOf(addr, denom string) *big.Int {
	if c, ok := s.Bal[addr]; ok {
		return c.Get(denom)
	}
	return new(big.Int)
}

// ---- exact arithmetic helpers ----

func I(n int64) *big.Int { return big.NewInt(n) }

func R(s string) *big.Rat {
	r, ok := new(big.Rat).SetString(s)
	if !ok {
		panic("bad rational " + s)
	}
	return r
}

func RatInt(n *big.Int) *big.Rat { return new(big.Rat).SetInt(n) }

// Floor of a non-negative or negative rational (mathematical floor).
func Floor(r *big.Rat) *big.Int {
	q := new(big.Int)
	m := new(big.Int)
	q.DivMod(r.Num(), r.Denom(), m) // Euclidean: m >= 0, so q is the floor for positive denominators
	return q
}

func Ceil(r *big.Rat) *big.Int {
	f := Floor(r)
	if new(big.Rat).SetInt(f).Cmp(r) == 0 {
		return f
	}
	return f.Add(f, big.NewInt(1))
}

func Mul(a *big.Rat, n *big.Int) *big.Rat { return new(big.Rat).Mul(a, RatInt(n)) }

func Add(a, b *big.Int) *big.Int { return new(big.Int).Add(a, b) }
func Sub(a, b *big.Int) *big.Int { return new(big.Int).Sub(a, b) }
func Min(a, b *big.Int) *big.Int {
	if a.Cmp(b) <= 0 {
		return a
	}
	return b
}

// ---- bid conversions (the statements' wording: "required reservation", "converted amount") ----

// RequiredReservation is what must sit in the paying escrow for a bid: its coin when the bid is
// denominated in the paying coin, otherwise ceil(amount * price).
func RequiredReservation(b *Bid, payDenom string) *big.Int {
	if b.Denom == payDenom {
		return new(big.Int).Set(b.Amt)
	}
	return Ceil(Mul(b.Price, b.Amt))
}

// SellingAmount is the number of selling coins a bid asks for at its own price: floor(coin / price)
// when denominated in the paying coin, otherwise its amount.
func SellingAmount(b *Bid, payDenom string) *big.Int {
	if b.Denom == payDenom {
		return Floor(new(big.Rat).Quo(RatInt(b.Amt), b.Price))
	}
	return new(big.Int).Set(b.Amt)
}

// QtyAt is the number of selling coins a batch bid asks for when the clearing price is p.
func QtyAt(b *Bid, p *big.Rat) *big.Int {
	if b.Type == BidWorth {
		return Floor(new(big.Rat).Quo(RatInt(b.Amt), p))
	}
	return new(big.Int).Set(b.Amt)
}

func (b *Bid) String() string {
	return fmt.Sprintf("bid{a%d #%d %s t%d p=%s %s%s m=%v}", b.AID, b.ID, short(b.Bidder), b.Type, b.Price.FloatString(6), b.Amt, b.Denom, b.Matched)
}

func short(a string) string {
	if len(a) > 12 {
		return a[len(a)-6:]
	}
	return a
}
