package ref

import (
	"math/big"
	"sort"
	"time"
)

// ---------------------------------------------------------------------------------------------
// Batch clearing, straight from the statement of C03 (no binary search, no shortcuts):
//   demand(p) = sum over bidders of min(cap, sum over their bids priced >= p of qty(bid, p))
//   P* = the lowest recorded bid price p with demand(p) <= supply
// ---------------------------------------------------------------------------------------------

type Clearing struct {
	Found      bool     // some recorded price fits
	Price      *big.Rat // P* (nil when !Found)
	Sold       *big.Int // demand(P*)
	Alloc      map[string]*big.Int
	Nothing    bool // nothing is sold (no qualifying price or zero demand)
	MatchedIDs []uint64
	// Contribution of each bid (by id) to its bidder's allocation under price-time priority.
	Contribution map[uint64]*big.Int
	// Ambiguous bidders: the cap binds and more than one of their bids sits at the same price, so
	// the split between those bids is not fixed by price priority alone.
	MatchedLen int64
}

func DistinctPricesAsc(bids []*Bid) []*big.Rat {
	var ps []*big.Rat
	for _, b := range bids {
		dup := false
		for _, p := range ps {
			if p.Cmp(b.Price) == 0 {
				dup = true
				break
			}
		}
		if !dup {
			ps = append(ps, b.Price)
		}
	}
	sort.Slice(ps, func(i, j int) bool { return ps[i].Cmp(ps[j]) < 0 })
	return ps
}

// DemandAt returns per-bidder capped demand and the total at price p. Bidders without an
// allow-list entry have cap 0.
func DemandAt(p *big.Rat, bids []*Bid, caps map[string]*big.Int) (map[string]*big.Int, *big.Int) {
	raw := map[string]*big.Int{}
	for _, b := range bids {
		if b.Price.Cmp(p) < 0 {
			continue
		}
		if _, ok := raw[b.Bidder]; !ok {
			raw[b.Bidder] = new(big.Int)
		}
		raw[b.Bidder].Add(raw[b.Bidder], QtyAt(b, p))
	}
	total := new(big.Int)
	out := map[string]*big.Int{}
	for bidder, d := range raw {
		c, ok := caps[bidder]
		if !ok {
			c = new(big.Int)
		}
		out[bidder] = new(big.Int).Set(Min(d, c))
		total.Add(total, out[bidder])
	}
	return out, total
}

func Clear(bids []*Bid, allowed []*Allowed, supply *big.Int) *Clearing {
	caps := map[string]*big.Int{}
	for _, a := range allowed {
		caps[a.Bidder] = a.Max
	}
	res := &Clearing{Alloc: map[string]*big.Int{}, Sold: new(big.Int), Contribution: map[uint64]*big.Int{}}
	for _, b := range bids {
		res.Alloc[b.Bidder] = new(big.Int)
		res.Contribution[b.ID] = new(big.Int)
	}
	for _, p := range DistinctPricesAsc(bids) { // lowest first: the first that fits is P*
		per, total := DemandAt(p, bids, caps)
		if total.Cmp(supply) <= 0 {
			res.Found = true
			res.Price = p
			res.Sold = total
			for k, v := range per {
				res.Alloc[k] = v
			}
			break
		}
	}
	if !res.Found || res.Sold.Sign() == 0 {
		res.Nothing = true
		res.Sold = new(big.Int)
		for k := range res.Alloc {
			res.Alloc[k] = new(big.Int)
		}
		return res
	}
	// per-bid contributions under price (descending) then id (ascending) priority
	ord := append([]*Bid{}, bids...)
	sort.SliceStable(ord, func(i, j int) bool {
		c := ord[i].Price.Cmp(ord[j].Price)
		if c != 0 {
			return c > 0
		}
		return ord[i].ID < ord[j].ID
	})
	left := map[string]*big.Int{}
	for k, v := range caps {
		left[k] = new(big.Int).Set(v)
	}
	for _, b := range ord {
		if b.Price.Cmp(res.Price) < 0 {
			continue
		}
		l, ok := left[b.Bidder]
		if !ok {
			l = new(big.Int)
		}
		q := Min(QtyAt(b, res.Price), l)
		if q.Sign() > 0 {
			res.Contribution[b.ID] = new(big.Int).Set(q)
			left[b.Bidder] = Sub(l, q)
			res.MatchedIDs = append(res.MatchedIDs, b.ID)
			res.MatchedLen++
		}
	}
	return res
}

// ---------------------------------------------------------------------------------------------
// Instalment split (C09)
// ---------------------------------------------------------------------------------------------

func Instalments(proceeds *big.Int, sched []Schedule) []*big.Int {
	out := make([]*big.Int, len(sched))
	rem := new(big.Int).Set(proceeds)
	for i, s := range sched {
		if i == len(sched)-1 {
			out[i] = new(big.Int).Set(rem)
			break
		}
		out[i] = Floor(Mul(s.Weight, proceeds))
		rem.Sub(rem, out[i])
	}
	return out
}

// ---------------------------------------------------------------------------------------------
// Lifecycle step of one auction in one block (C08, C13), from the status at the start of the block.
// ---------------------------------------------------------------------------------------------

type StepKind int

const (
	StepNone StepKind = iota
	StepOpen
	StepExtend
	StepSettle
	StepRelease // one or more instalments released (possibly finishing)
)

func (k StepKind) String() string {
	return [...]string{"none", "open", "extend", "settle", "release"}[k]
}

type Step struct {
	Kind StepKind
	// Extend
	NewEnd time.Time
	// Settle (batch): clearing result
	Clearing *Clearing
	// Release: indices of instalments due and unreleased at the start of the block
	Due      []int
	Finishes bool
}

// ExtendRule is the anti-sniping rule of C13 in exact rationals: with rounds left, extend iff the
// previous end time recorded no matched bids or the count has fallen by at least rate.
func ExtendRule(prev, cur int64, rate *big.Rat) bool {
	if prev == 0 {
		return true
	}
	// 1 - cur/prev >= rate
	d := new(big.Rat).Sub(big.NewRat(1, 1), big.NewRat(cur, prev))
	return d.Cmp(rate) >= 0
}

func AddDays(t time.Time, d uint32) time.Time { return t.AddDate(0, 0, int(d)) }

func StepOf(s *State, a *Auction, now time.Time) Step {
	switch a.Status {
	case StatusStandBy:
		if !a.Start.After(now) {
			return Step{Kind: StepOpen}
		}
	case StatusStarted:
		if a.LastEnd().After(now) {
			return Step{}
		}
		if a.Type == TypeFixed {
			return Step{Kind: StepSettle}
		}
		cl := Clear(s.Bids[a.ID], s.Allowed[a.ID], a.SellAmt)
		roundsLeft := uint32(len(a.EndTimes)) < a.MaxExt+1
		if roundsLeft {
			prev := s.MatchedLen[a.ID] // 0 when absent
			if ExtendRule(prev, cl.MatchedLen, a.Rate) {
				return Step{Kind: StepExtend, NewEnd: AddDays(a.LastEnd(), s.ExtPeriod), Clearing: cl}
			}
		}
		return Step{Kind: StepSettle, Clearing: cl}
	case StatusVesting:
		var due []int
		qs := s.VQs[a.ID]
		for i, q := range qs {
			if !q.Released && !q.Release.After(now) {
				due = append(due, i)
			}
		}
		if len(due) > 0 {
			fin := true
			for i, q := range qs {
				if !q.Released && !contains(due, i) {
					fin = false
				}
			}
			return Step{Kind: StepRelease, Due: due, Finishes: fin}
		}
	}
	return Step{}
}

func contains(a []int, x int) bool {
	for _, y := range a {
		if y == x {
			return true
		}
	}
	return false
}

// ---------------------------------------------------------------------------------------------
// Escrow expectations (C01)
// ---------------------------------------------------------------------------------------------

// ExpectedEscrows returns what the three escrows of a must hold according to the records.
func ExpectedEscrows(s *State, a *Auction) (sell, pay, vest *big.Int) {
	sell, pay, vest = new(big.Int), new(big.Int), new(big.Int)
	if a.Status == StatusStandBy || a.Status == StatusStarted {
		sell.Set(a.SellAmt)
	}
	if a.Status == StatusStarted {
		for _, b := range s.Bids[a.ID] {
			pay.Add(pay, RequiredReservation(b, a.PayDenom))
		}
	}
	if a.Status == StatusVesting {
		for _, q := range s.VQs[a.ID] {
			if !q.Released {
				vest.Add(vest, q.Amt)
			}
		}
	}
	return
}
