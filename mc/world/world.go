// Package world builds a real, fully deterministic fundraising application on an in-memory
// database and exposes the few handles the explorer needs: a base context, the message router,
// the module's block hook, and snapshot/dump helpers.
package world

import (
	"encoding/json"
	"fmt"
	"sort"
	"strings"
	"time"

	"cosmossdk.io/log"
	"cosmossdk.io/math"
	abci "github.com/cometbft/cometbft/abci/types"
	cmted25519 "github.com/cometbft/cometbft/crypto/ed25519"
	cmtproto "github.com/cometbft/cometbft/proto/tendermint/types"
	tmtypes "github.com/cometbft/cometbft/types"
	dbm "github.com/cosmos/cosmos-db"
	"github.com/cosmos/cosmos-sdk/baseapp"
	"github.com/cosmos/cosmos-sdk/client/flags"
	codectypes "github.com/cosmos/cosmos-sdk/codec/types"
	cryptocodec "github.com/cosmos/cosmos-sdk/crypto/codec"
	"github.com/cosmos/cosmos-sdk/crypto/keys/secp256k1"
	simtestutil "github.com/cosmos/cosmos-sdk/testutil/sims"
	sdk "github.com/cosmos/cosmos-sdk/types"
	authtypes "github.com/cosmos/cosmos-sdk/x/auth/types"
	banktypes "github.com/cosmos/cosmos-sdk/x/bank/types"
	distrtypes "github.com/cosmos/cosmos-sdk/x/distribution/types"
	stakingtypes "github.com/cosmos/cosmos-sdk/x/staking/types"

	"cosmossdk.io/core/appmodule"

	"github.com/tendermint/fundraising/app"
	fkeeper "github.com/tendermint/fundraising/x/fundraising/keeper"
	ftypes "github.com/tendermint/fundraising/x/fundraising/types"
)

const ChainID = "verif-1"

// T0 is the origin of every scenario timeline; instant k is T0 + k days.
var T0 = time.Date(2030, 1, 1, 0, 0, 0, 0, time.UTC)

func Instant(k int) time.Time { return T0.Add(time.Duration(k) * 24 * time.Hour) }

// Actor is a fixed account with a fixed key.
type Actor struct {
	Name   string
	Priv   *secp256k1.PrivKey
	Addr   sdk.AccAddress
	Bech32 string
}

func (a Actor) String() string { return a.Bech32 }

var actorNames = []string{"auc1", "auc2", "bid1", "bid2", "bid3", "out1", "donor", "poor", "val"}

// Actors in a fixed order; identical in every process.
var Actors = func() map[string]Actor {
	m := map[string]Actor{}
	for _, n := range actorNames {
		pk := secp256k1.GenPrivKeyFromSecret([]byte("verif-actor-" + n))
		ad := sdk.AccAddress(pk.PubKey().Address())
		m[n] = Actor{Name: n, Priv: pk, Addr: ad, Bech32: ad.String()}
	}
	return m
}()

func ActorNames() []string { return append([]string{}, actorNames...) }

func A(name string) Actor {
	a, ok := Actors[name]
	if !ok {
		panic("unknown actor " + name)
	}
	return a
}

var nameCache = func() map[string]string {
	m := map[string]string{}
	for n, a := range Actors {
		m[a.Addr.String()] = n
	}
	for id := uint64(0); id < 16; id++ {
		m[ftypes.SellingReserveAddress(id).String()] = fmt.Sprintf("sell#%d", id)
		m[ftypes.PayingReserveAddress(id).String()] = fmt.Sprintf("pay#%d", id)
		m[ftypes.VestingReserveAddress(id).String()] = fmt.Sprintf("vest#%d", id)
	}
	m[authtypes.NewModuleAddress(distrtypes.ModuleName).String()] = "distr"
	return m
}()

// NameOf maps an address string back to a short name (actor, escrow or module), for readable output.
func NameOf(addr string) string {
	if n, ok := nameCache[addr]; ok {
		return n
	}
	if n, ok := nameCache[strings.ToLower(addr)]; ok && strings.ToUpper(addr) == addr {
		return n + "^" // the same account, written in upper case
	}
	return addr
}

// Config fixes the genesis of a World.
type Config struct {
	Balances map[string]sdk.Coins // actor name -> coins
	Params   ftypes.Params
	// FundraisingGenesis, when non-nil, replaces the module genesis (Params is ignored then).
	FundraisingGenesis *ftypes.GenesisState
	// ExtraBalances funds arbitrary addresses at genesis (escrows when booting from an export).
	ExtraBalances map[string]sdk.Coins
}

type World struct {
	App  *app.App
	Cfg  Config
	base sdk.Context
	// K is the keeper the explorer reads state through (the app's own).
	K fkeeper.Keeper
}

func fauxMerkleModeOpt(bapp *baseapp.BaseApp) { bapp.SetFauxMerkleMode() }

// NewUnstarted builds the application and runs InitChain only (no block yet): the starting point of
// a replay through the real ABCI pipeline.
func NewUnstarted(cfg Config) (*World, error) {
	db := dbm.NewMemDB()
	appOptions := simtestutil.AppOptionsMap{
		flags.FlagHome:     "/nonexistent-verif-home",
		"inv-check-period": uint(0),
	}
	a, err := app.New(log.NewNopLogger(), db, nil, true, appOptions, fauxMerkleModeOpt, baseapp.SetChainID(ChainID))
	if err != nil {
		return nil, err
	}
	gs, err := GenesisJSON(a, cfg)
	if err != nil {
		return nil, err
	}
	if _, err := a.InitChain(&abci.RequestInitChain{
		ChainId:         ChainID,
		AppStateBytes:   gs,
		Time:            T0,
		ConsensusParams: simtestutil.DefaultConsensusParams,
		InitialHeight:   1,
	}); err != nil {
		return nil, err
	}
	return &World{App: a, Cfg: cfg, K: a.FundraisingKeeper}, nil
}

// New builds the application, runs InitChain and one committed block at T0, and returns a World whose
// Base() context reads the committed state. Nothing in here is random.
func New(cfg Config) (*World, error) {
	w, err := NewUnstarted(cfg)
	if err != nil {
		return nil, err
	}
	a := w.App
	if _, err := a.FinalizeBlock(&abci.RequestFinalizeBlock{Height: 1, Time: T0}); err != nil {
		return nil, fmt.Errorf("first block: %w", err)
	}
	if _, err := a.Commit(); err != nil {
		return nil, err
	}
	w.base = a.BaseApp.NewUncachedContext(false, cmtproto.Header{ChainID: ChainID, Height: 1, Time: T0}).
		WithEventManager(sdk.NewEventManager())
	return w, nil
}

// AccountNumber is the genesis account number of an actor (its index in the fixed actor order).
func AccountNumber(name string) uint64 {
	for i, n := range actorNames {
		if n == name {
			return uint64(i)
		}
	}
	panic("unknown actor " + name)
}

// Base returns a fresh copy-on-write branch of the committed state. The committed state itself is
// never written by the explorer, so a World can serve any number of explorations.
func (w *World) Base() sdk.Context {
	c, _ := w.base.CacheContext()
	return c.WithEventManager(sdk.NewEventManager())
}

// BeginBlock calls the fundraising module's registered block hook (the object the module manager
// would call), on ctx.
func (w *World) BeginBlock(ctx sdk.Context) error {
	m, ok := w.App.ModuleManager.Modules[ftypes.ModuleName]
	if !ok {
		return fmt.Errorf("fundraising module not registered")
	}
	bb, ok := m.(appmodule.HasBeginBlocker)
	if !ok {
		return fmt.Errorf("fundraising module has no BeginBlock")
	}
	return bb.BeginBlock(ctx)
}

// ValidatorKey is the fixed consensus key of the single validator.
func ValidatorKey() cmted25519.PrivKey {
	return cmted25519.GenPrivKeyFromSecret([]byte("verif-validator"))
}

// GenesisJSON renders the deterministic genesis for cfg.
func GenesisJSON(a *app.App, cfg Config) ([]byte, error) {
	cdc := a.AppCodec()
	gs := a.DefaultGenesis()

	val := tmtypes.NewValidator(ValidatorKey().PubKey(), 1)

	names := ActorNames()
	var genAccs []authtypes.GenesisAccount
	var balances []banktypes.Balance
	for i, n := range names {
		act := A(n)
		genAccs = append(genAccs, authtypes.NewBaseAccount(act.Addr, nil, uint64(i), 0))
		coins := cfg.Balances[n]
		if n == "val" {
			coins = coins.Add(sdk.NewCoin(sdk.DefaultBondDenom, math.NewInt(1_000_000_000)))
		}
		if !coins.IsZero() {
			balances = append(balances, banktypes.Balance{Address: act.Addr.String(), Coins: coins})
		}
	}
	var extra []string
	for addr := range cfg.ExtraBalances {
		extra = append(extra, addr)
	}
	sort.Strings(extra)
	for _, addr := range extra {
		if !cfg.ExtraBalances[addr].IsZero() {
			balances = append(balances, banktypes.Balance{Address: addr, Coins: cfg.ExtraBalances[addr]})
		}
	}

	authGenesis := authtypes.NewGenesisState(authtypes.DefaultParams(), genAccs)
	gs[authtypes.ModuleName] = cdc.MustMarshalJSON(authGenesis)

	bondAmt := sdk.DefaultPowerReduction
	pk, err := cryptocodec.FromCmtPubKeyInterface(val.PubKey)
	if err != nil {
		return nil, err
	}
	pkAny, err := codectypes.NewAnyWithValue(pk)
	if err != nil {
		return nil, err
	}
	valAddr := sdk.ValAddress(val.Address).String()
	validator := stakingtypes.Validator{
		OperatorAddress:   valAddr,
		ConsensusPubkey:   pkAny,
		Status:            stakingtypes.Bonded,
		Tokens:            bondAmt,
		DelegatorShares:   math.LegacyOneDec(),
		UnbondingTime:     time.Unix(0, 0).UTC(),
		Commission:        stakingtypes.NewCommission(math.LegacyZeroDec(), math.LegacyZeroDec(), math.LegacyZeroDec()),
		MinSelfDelegation: math.ZeroInt(),
	}
	delegation := stakingtypes.NewDelegation(A("val").Addr.String(), valAddr, math.LegacyOneDec())
	gs[stakingtypes.ModuleName] = cdc.MustMarshalJSON(
		stakingtypes.NewGenesisState(stakingtypes.DefaultParams(), []stakingtypes.Validator{validator}, []stakingtypes.Delegation{delegation}))

	balances = append(balances, banktypes.Balance{
		Address: authtypes.NewModuleAddress(stakingtypes.BondedPoolName).String(),
		Coins:   sdk.NewCoins(sdk.NewCoin(sdk.DefaultBondDenom, bondAmt)),
	})
	total := sdk.NewCoins()
	for _, b := range balances {
		total = total.Add(b.Coins...)
	}
	gs[banktypes.ModuleName] = cdc.MustMarshalJSON(
		banktypes.NewGenesisState(banktypes.DefaultGenesisState().Params, balances, total, nil, nil))

	fg := cfg.FundraisingGenesis
	if fg == nil {
		fg = ftypes.DefaultGenesis()
		fg.Params = cfg.Params
	}
	if len(fg.Params.AuctionCreationFee) == 0 {
		fg.Params.AuctionCreationFee = sdk.Coins{}
	}
	if len(fg.Params.PlaceBidFee) == 0 {
		fg.Params.PlaceBidFee = sdk.Coins{}
	}
	gs[ftypes.ModuleName] = cdc.MustMarshalJSON(fg)

	return json.MarshalIndent(gs, "", " ")
}
