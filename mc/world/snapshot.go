package world

import (
	"bytes"
	"crypto/sha256"
	"encoding/hex"
	"errors"
	"fmt"
	"math/big"
	"sync"
	"time"

	"cosmossdk.io/collections"
	"cosmossdk.io/math"
	sdk "github.com/cosmos/cosmos-sdk/types"
	authtypes "github.com/cosmos/cosmos-sdk/x/auth/types"
	banktypes "github.com/cosmos/cosmos-sdk/x/bank/types"
	distrtypes "github.com/cosmos/cosmos-sdk/x/distribution/types"

	ftypes "github.com/tendermint/fundraising/x/fundraising/types"

	"verif/mc/ref"
)

func decRat(d math.LegacyDec) *big.Rat {
	if d.IsNil() {
		return new(big.Rat)
	}
	r, ok := new(big.Rat).SetString(d.String())
	if !ok {
		panic("bad dec " + d.String())
	}
	return r
}

func intBig(i math.Int) *big.Int {
	if i.IsNil() {
		return new(big.Int)
	}
	return new(big.Int).Set(i.BigInt())
}

func coinsRef(cs sdk.Coins) ref.Coins {
	out := ref.Coins{}
	for _, c := range cs {
		out[c.Denom] = intBig(c.Amount)
	}
	return out
}

var DistrAddr = authtypes.NewModuleAddress(distrtypes.ModuleName).String()

// RawDump returns the raw key/value pairs of the fundraising store in key order.
func (w *World) RawDump(ctx sdk.Context) [][2][]byte {
	st := ctx.KVStore(w.App.GetKey(ftypes.StoreKey))
	it := st.Iterator(nil, nil)
	defer it.Close()
	var out [][2][]byte
	for ; it.Valid(); it.Next() {
		k := append([]byte{}, it.Key()...)
		v := append([]byte{}, it.Value()...)
		out = append(out, [2][]byte{k, v})
	}
	return out
}

// TrackedDenoms are the denominations whose balances are part of a snapshot.
var TrackedDenoms = []string{"acoin", "bcoin", "fcoin"}

var (
	kcAllowed = collections.PairKeyCodec(collections.Uint64Key, sdk.LengthPrefixedAddressKey(sdk.AccAddressKey))
	kcVQ      = collections.PairKeyCodec(collections.Uint64Key, sdk.TimeKey)
	kcBid     = collections.PairKeyCodec(collections.Uint64Key, collections.Uint64Key)
)

var addrCache sync.Map // bech32 string -> sdk.AccAddress

func accAddr(s string) sdk.AccAddress {
	if v, ok := addrCache.Load(s); ok {
		return v.(sdk.AccAddress)
	}
	a, err := sdk.AccAddressFromBech32(s)
	if err != nil {
		panic(err)
	}
	addrCache.Store(s, a)
	return a
}

var balKeyCodec = collections.PairKeyCodec(sdk.AccAddressKey, collections.StringKey)
var balKeyCache sync.Map // addr|denom -> []byte

// balanceKey is the raw bank-store key of (addr, denom), built with the bank keeper's own key codec.
// CheckBalanceReads compares these point reads with BankKeeper.GetAllBalances.
func balanceKey(addr, denom string) []byte {
	ck := addr + "|" + denom
	if v, ok := balKeyCache.Load(ck); ok {
		return v.([]byte)
	}
	pk := collections.Join(accAddr(addr), denom)
	buf := make([]byte, balKeyCodec.Size(pk))
	if _, err := balKeyCodec.Encode(buf, pk); err != nil {
		panic(err)
	}
	key := append(append([]byte{}, banktypes.BalancesPrefix.Bytes()...), buf...)
	balKeyCache.Store(ck, key)
	return key
}

// CheckBalanceReads asserts that the snapshot's raw point reads agree with the bank keeper's API for
// every tracked account (run once per World and after every replayed history in self-checks).
func (w *World) CheckBalanceReads(ctx sdk.Context, s *ref.State) error {
	for addr, c := range s.Bal {
		all := w.App.BankKeeper.GetAllBalances(ctx, accAddr(addr))
		for _, x := range all {
			if x.Denom == sdk.DefaultBondDenom {
				continue
			}
			if c.Get(x.Denom).Cmp(x.Amount.BigInt()) != 0 {
				return fmt.Errorf("balance read mismatch for %s %s: snapshot %s, bank keeper %s (untracked denom?)", NameOf(addr), x.Denom, c.Get(x.Denom), x.Amount)
			}
		}
		for d, v := range c {
			if all.AmountOf(d).BigInt().Cmp(v) != 0 {
				return fmt.Errorf("balance read mismatch for %s %s", NameOf(addr), d)
			}
		}
	}
	return nil
}

// CanonAddr returns the canonical (lower-case) bech32 form of an address string; strings that do not
// parse are returned unchanged.
func CanonAddr(s string) string {
	a, err := sdk.AccAddressFromBech32(s)
	if err != nil {
		return s
	}
	return a.String()
}

var escrowCache sync.Map // uint64 -> [3]string

func EscrowAddrs(id uint64) (sell, pay, vest string) {
	if v, ok := escrowCache.Load(id); ok {
		x := v.([3]string)
		return x[0], x[1], x[2]
	}
	x := [3]string{ftypes.SellingReserveAddress(id).String(), ftypes.PayingReserveAddress(id).String(), ftypes.VestingReserveAddress(id).String()}
	escrowCache.Store(id, x)
	return x[0], x[1], x[2]
}

// Snapshot decodes the whole observable module state plus tracked balances. The module store is
// read with a single raw iteration and decoded entry by entry with the keeper's own codecs.
func (w *World) Snapshot(ctx sdk.Context) (*ref.State, error) {
	s := &ref.State{
		Time: ctx.BlockTime(), Height: ctx.BlockHeight(),
		Bids: map[uint64][]*ref.Bid{}, Allowed: map[uint64][]*ref.Allowed{}, VQs: map[uint64][]*ref.VQ{},
		BidSeq: map[uint64]uint64{}, MatchedLen: map[uint64]int64{}, Bal: map[string]ref.Coins{},
		CommunityPool: map[string]*big.Rat{},
	}
	cdc := w.App.AppCodec()
	h := sha256.New()
	sawParams := false
	for _, kv := range w.RawDump(ctx) {
		key, val := kv[0], kv[1]
		h.Write([]byte{byte(len(key) >> 8), byte(len(key))})
		h.Write(key)
		h.Write([]byte{byte(len(val) >> 16), byte(len(val) >> 8), byte(len(val))})
		h.Write(val)
		switch {
		case bytes.Equal(key, ftypes.ParamsKey.Bytes()):
			var p ftypes.Params
			if err := cdc.Unmarshal(val, &p); err != nil {
				return nil, err
			}
			s.CreationFee = coinsRef(p.AuctionCreationFee)
			s.BidFee = coinsRef(p.PlaceBidFee)
			s.ExtPeriod = p.ExtendedPeriod
			sawParams = true
		case bytes.Equal(key, ftypes.AuctionCountKey.Bytes()):
			v, err := collections.Uint64Value.Decode(val)
			if err != nil {
				return nil, err
			}
			s.NextAuctionID = v
		case bytes.HasPrefix(key, ftypes.AuctionKey.Bytes()):
			_, id, err := collections.Uint64Key.Decode(key[len(ftypes.AuctionKey.Bytes()):])
			if err != nil {
				return nil, err
			}
			var a ftypes.AuctionI
			if err := cdc.UnmarshalInterface(val, &a); err != nil {
				return nil, err
			}
			if id != a.GetId() {
				return nil, errors.New("auction stored under a key different from its id")
			}
			ra := &ref.Auction{
				ID: a.GetId(), Type: int(a.GetType()), Auctioneer: a.GetAuctioneer().String(),
				SellAddr: a.GetSellingReserveAddress().String(), PayAddr: a.GetPayingReserveAddress().String(),
				VestAddr: a.GetVestingReserveAddress().String(), StartPrice: decRat(a.GetStartPrice()),
				SellDenom: a.GetSellingCoin().Denom, SellAmt: intBig(a.GetSellingCoin().Amount),
				PayDenom: a.GetPayingCoinDenom(), Start: a.GetStartTime(), Status: int(a.GetStatus()),
			}
			for _, vs := range a.GetVestingSchedules() {
				ra.Schedules = append(ra.Schedules, ref.Schedule{Release: vs.ReleaseTime, Weight: decRat(vs.Weight)})
			}
			ra.EndTimes = append([]time.Time{}, a.GetEndTimes()...)
			switch t := a.(type) {
			case *ftypes.FixedPriceAuction:
				ra.Remaining = intBig(t.RemainingSellingCoin.Amount)
				ra.RemainingDenom = t.RemainingSellingCoin.Denom
			case *ftypes.BatchAuction:
				ra.MinBidPrice = decRat(t.MinBidPrice)
				ra.MatchedPrice = decRat(t.MatchedPrice)
				ra.MaxExt = t.MaxExtendedRound
				ra.Rate = decRat(t.ExtendedRoundRate)
			}
			ra.Raw = string(val)
			s.Auctions = append(s.Auctions, ra)
		case bytes.HasPrefix(key, ftypes.BidCountKey.Bytes()):
			_, id, err := collections.Uint64Key.Decode(key[len(ftypes.BidCountKey.Bytes()):])
			if err != nil {
				return nil, err
			}
			v, err := collections.Uint64Value.Decode(val)
			if err != nil {
				return nil, err
			}
			s.BidSeq[id] = v
		case bytes.HasPrefix(key, ftypes.BidKey.Bytes()):
			_, pk, err := kcBid.Decode(key[len(ftypes.BidKey.Bytes()):])
			if err != nil {
				return nil, err
			}
			var b ftypes.Bid
			if err := cdc.Unmarshal(val, &b); err != nil {
				return nil, err
			}
			if pk.K1() != b.AuctionId || pk.K2() != b.Id {
				return nil, errors.New("bid stored under a key different from its ids")
			}
			s.Bids[b.AuctionId] = append(s.Bids[b.AuctionId], &ref.Bid{
				// an account is its address, not the way the address was typed: the reference model sees
				// the canonical form (the raw record stays available in Raw)
				AID: b.AuctionId, ID: b.Id, Bidder: CanonAddr(b.Bidder), Type: int(b.Type), Price: decRat(b.Price),
				Denom: b.Coin.Denom, Amt: intBig(b.Coin.Amount), Matched: b.IsMatched, Raw: string(val),
			})
		case bytes.HasPrefix(key, ftypes.AllowedBidderKey.Bytes()):
			_, pk, err := kcAllowed.Decode(key[len(ftypes.AllowedBidderKey.Bytes()):])
			if err != nil {
				return nil, err
			}
			var ab ftypes.AllowedBidder
			if err := cdc.Unmarshal(val, &ab); err != nil {
				return nil, err
			}
			s.Allowed[pk.K1()] = append(s.Allowed[pk.K1()], &ref.Allowed{AID: ab.AuctionId, Bidder: pk.K2().String(), Max: intBig(ab.MaxBidAmount), Raw: string(val)})
		case bytes.HasPrefix(key, ftypes.VestingQueueKey.Bytes()):
			_, pk, err := kcVQ.Decode(key[len(ftypes.VestingQueueKey.Bytes()):])
			if err != nil {
				return nil, err
			}
			var q ftypes.VestingQueue
			if err := cdc.Unmarshal(val, &q); err != nil {
				return nil, err
			}
			s.VQs[pk.K1()] = append(s.VQs[pk.K1()], &ref.VQ{AID: q.AuctionId, Auctioneer: q.Auctioneer, Denom: q.PayingCoin.Denom,
				Amt: intBig(q.PayingCoin.Amount), Release: q.ReleaseTime, Released: q.Released, Raw: string(val)})
		case bytes.HasPrefix(key, ftypes.MatchedBidsLenKey.Bytes()):
			_, id, err := collections.Uint64Key.Decode(key[len(ftypes.MatchedBidsLenKey.Bytes()):])
			if err != nil {
				return nil, err
			}
			v, err := collections.Int64Value.Decode(val)
			if err != nil {
				return nil, err
			}
			s.MatchedLen[id] = v
		default:
			return nil, fmt.Errorf("unknown key in fundraising store: %q", key)
		}
	}
	if !sawParams {
		return nil, errors.New("params missing from the fundraising store")
	}
	s.RawModule = hex.EncodeToString(h.Sum(nil))

	// balances (point reads of the tracked denominations)
	bankStore := ctx.KVStore(w.App.GetKey(banktypes.StoreKey))
	track := func(addr string) {
		c := ref.Coins{}
		for _, d := range TrackedDenoms {
			bz := bankStore.Get(balanceKey(addr, d))
			if bz == nil {
				continue
			}
			v, err := sdk.IntValue.Decode(bz)
			if err != nil {
				panic(err)
			}
			if !v.IsZero() {
				c[d] = intBig(v)
			}
		}
		s.Bal[addr] = c
	}
	for _, n := range actorNames {
		track(A(n).Bech32)
	}
	for id := uint64(0); id <= s.NextAuctionID; id++ {
		a, b, c := EscrowAddrs(id)
		track(a)
		track(b)
		track(c)
	}
	track(DistrAddr)
	fp, err := w.App.DistrKeeper.FeePool.Get(ctx)
	if err != nil {
		return nil, err
	}
	for _, dc := range fp.CommunityPool {
		if dc.Denom == sdk.DefaultBondDenom {
			continue
		}
		s.CommunityPool[dc.Denom] = decRat(dc.Amount)
	}
	s.Supply = ref.Coins{}
	for _, d := range TrackedDenoms {
		c := w.App.BankKeeper.GetSupply(ctx, d)
		if !c.Amount.IsZero() {
			s.Supply[d] = intBig(c.Amount)
		}
	}
	return s, nil
}

// StateKey is the canonical key of a search node: raw module store, tracked balances, block time.
func StateKey(s *ref.State, extra string) [32]byte {
	h := sha256.New()
	h.Write([]byte(s.RawModule))
	h.Write([]byte(s.Time.UTC().Format(time.RFC3339Nano)))
	// tracked balances in deterministic order
	addrs := make([]string, 0, len(s.Bal))
	for a := range s.Bal {
		addrs = append(addrs, a)
	}
	sortStrings(addrs)
	for _, a := range addrs {
		c := s.Bal[a].String()
		if c == "" {
			continue
		}
		h.Write([]byte(a))
		h.Write([]byte{0})
		h.Write([]byte(c))
		h.Write([]byte{1})
	}
	h.Write([]byte(extra))
	var out [32]byte
	copy(out[:], h.Sum(nil))
	return out
}

func sortStrings(a []string) {
	for i := 1; i < len(a); i++ {
		for j := i; j > 0 && a[j] < a[j-1]; j-- {
			a[j], a[j-1] = a[j-1], a[j]
		}
	}
}
