// maporder type-checks x/fundraising/{keeper,types,module} of the repository's current working tree,
// finds every `range` over a map and every maps.Keys call, and writes a `go build -overlay` file that
// replaces each source file by a copy in which the iteration order is taken from verifrt.Keys, i.e.
// from the schedule explorer. /repo itself is never modified. A form the rewriter does not recognise
// is a hard error (never a silent skip).
package main

import (
	"encoding/json"
	"flag"
	"fmt"
	"go/ast"
	"go/token"
	"go/types"
	"os"
	"path/filepath"
	"sort"
	"strings"

	"golang.org/x/tools/go/packages"
)

const modPath = "github.com/tendermint/fundraising"
const rtImport = modPath + "/x/fundraising/verifrt"

type edit struct {
	start, end int
	text       string
}

func main() {
	repo := flag.String("repo", "/repo", "repository root")
	out := flag.String("out", "", "output directory for rewritten files and overlay.json")
	flag.Parse()
	if *out == "" {
		fmt.Fprintln(os.Stderr, "-out required")
		os.Exit(2)
	}
	if err := os.MkdirAll(*out, 0o755); err != nil {
		panic(err)
	}
	cfg := &packages.Config{
		Mode: packages.NeedName | packages.NeedFiles | packages.NeedCompiledGoFiles | packages.NeedSyntax | packages.NeedTypes | packages.NeedTypesInfo | packages.NeedImports | packages.NeedDeps,
		Dir:  *repo,
		Env:  append(os.Environ(), "GOFLAGS=-mod=mod", "GOPROXY=off", "GOSUMDB=off"),
	}
	pkgs, err := packages.Load(cfg, "./x/fundraising/keeper", "./x/fundraising/types", "./x/fundraising/module")
	if err != nil {
		fmt.Fprintln(os.Stderr, "load:", err)
		os.Exit(2)
	}
	overlay := map[string]string{}
	var sites []string
	for _, pkg := range pkgs {
		if len(pkg.Errors) > 0 {
			fmt.Fprintln(os.Stderr, "package errors in", pkg.PkgPath, pkg.Errors)
			os.Exit(2)
		}
		for i, f := range pkg.Syntax {
			fname := pkg.CompiledGoFiles[i]
			if strings.HasSuffix(fname, "_test.go") || strings.HasSuffix(fname, ".pb.go") || strings.HasSuffix(fname, ".pb.gw.go") {
				continue
			}
			src, err := os.ReadFile(fname)
			if err != nil {
				panic(err)
			}
			var edits []edit
			tf := pkg.Fset.File(f.Pos())
			off := func(p token.Pos) int { return tf.Offset(p) }
			rel, _ := filepath.Rel(*repo, fname)
			tmpN := 0
			ast.Inspect(f, func(n ast.Node) bool {
				switch x := n.(type) {
				case *ast.RangeStmt:
					t := pkg.TypesInfo.TypeOf(x.X)
					if t == nil {
						return true
					}
					if _, ok := t.Underlying().(*types.Map); !ok {
						return true
					}
					site := fmt.Sprintf("%s:%d", rel, pkg.Fset.Position(x.Pos()).Line)
					switch x.X.(type) {
					case *ast.Ident, *ast.SelectorExpr:
					default:
						fail("%s: range over a map expression that is not a plain identifier/selector; extend the rewriter", site)
					}
					mexpr := string(src[off(x.X.Pos()):off(x.X.End())])
					tmpN++
					kv := fmt.Sprintf("verifK%d", tmpN)
					keyName, valName := "", ""
					if x.Key != nil {
						id, ok := x.Key.(*ast.Ident)
						if !ok {
							fail("%s: range key is not an identifier", site)
						}
						keyName = id.Name
					}
					if x.Value != nil {
						id, ok := x.Value.(*ast.Ident)
						if !ok {
							fail("%s: range value is not an identifier", site)
						}
						valName = id.Name
					}
					var head, inject string
					call := fmt.Sprintf("verifrt.Keys(%s, %q)", mexpr, site)
					switch x.Tok {
					case token.DEFINE, token.ILLEGAL:
						loopKey := kv
						if keyName != "" && keyName != "_" {
							loopKey = keyName
						}
						if keyName == "" && valName == "" {
							head = fmt.Sprintf("for range %s {", call)
						} else {
							head = fmt.Sprintf("for _, %s := range %s {", loopKey, call)
						}
						if valName != "" && valName != "_" {
							// entries deleted during the iteration are skipped, as the runtime does
							inject = fmt.Sprintf("\n%s, verifOK%d := %s[%s]; if !verifOK%d { continue }; _ = %s\n", valName, tmpN, mexpr, loopKey, tmpN, valName)
						} else if keyName != "" && keyName != "_" {
							inject = fmt.Sprintf("\nif _, verifOK%d := %s[%s]; !verifOK%d { continue }\n", tmpN, mexpr, loopKey, tmpN)
						}
					case token.ASSIGN:
						head = fmt.Sprintf("for _, %s := range %s {", kv, call)
						inject = fmt.Sprintf("\nif _, verifOK%d := %s[%s]; !verifOK%d { continue }\n", tmpN, mexpr, kv, tmpN)
						if keyName != "" && keyName != "_" {
							inject += fmt.Sprintf("%s = %s\n", keyName, kv)
						}
						if valName != "" && valName != "_" {
							inject += fmt.Sprintf("%s = %s[%s]\n", valName, mexpr, kv)
						}
					default:
						fail("%s: unknown range token", site)
					}
					edits = append(edits, edit{off(x.For), off(x.Body.Lbrace) + 1, head + inject})
					sites = append(sites, site)
				case *ast.CallExpr:
					sel, ok := x.Fun.(*ast.SelectorExpr)
					if !ok || sel.Sel.Name != "Keys" {
						return true
					}
					id, ok := sel.X.(*ast.Ident)
					if !ok {
						return true
					}
					pn, ok := pkg.TypesInfo.Uses[id].(*types.PkgName)
					if !ok || !(strings.HasSuffix(pn.Imported().Path(), "/maps") || pn.Imported().Path() == "maps") {
						return true
					}
					if len(x.Args) != 1 {
						return true
					}
					site := fmt.Sprintf("%s:%d", rel, pkg.Fset.Position(x.Pos()).Line)
					arg := string(src[off(x.Args[0].Pos()):off(x.Args[0].End())])
					edits = append(edits, edit{off(x.Pos()), off(x.End()), fmt.Sprintf("verifrt.Keys(%s, %q)", arg, site+"[mapsKeys]")})
					sites = append(sites, site+"[mapsKeys]")
				}
				return true
			})
			if len(edits) == 0 {
				continue
			}
			// add the import right after the package clause
			edits = append(edits, edit{off(f.Name.End()), off(f.Name.End()), fmt.Sprintf("\nimport verifrt %q\n", rtImport)})
			sort.Slice(edits, func(i, j int) bool { return edits[i].start > edits[j].start })
			outSrc := string(src)
			for _, e := range edits {
				outSrc = outSrc[:e.start] + e.text + outSrc[e.end:]
			}
			// a maps import may have become unused
			if !strings.Contains(stripImports(outSrc), "maps.") {
				outSrc = strings.Replace(outSrc, "\t\"golang.org/x/exp/maps\"\n", "", 1)
			}
			dst := filepath.Join(*out, strings.ReplaceAll(rel, "/", "__"))
			if err := os.WriteFile(dst, []byte(outSrc), 0o644); err != nil {
				panic(err)
			}
			overlay[fname] = dst
		}
	}
	rt := filepath.Join(*out, "verifrt.go")
	if err := os.WriteFile(rt, []byte(verifrtSrc), 0o644); err != nil {
		panic(err)
	}
	overlay[filepath.Join(*repo, "x/fundraising/verifrt/verifrt.go")] = rt
	bz, _ := json.MarshalIndent(map[string]any{"Replace": overlay}, "", " ")
	if err := os.WriteFile(filepath.Join(*out, "overlay.json"), bz, 0o644); err != nil {
		panic(err)
	}
	sort.Strings(sites)
	sbz, _ := json.MarshalIndent(sites, "", " ")
	os.WriteFile(filepath.Join(*out, "sites.json"), sbz, 0o644)
	fmt.Printf("maporder: %d map-iteration sites rewritten in %d files\n", len(sites), len(overlay)-1)
	for _, s := range sites {
		fmt.Println("  ", s)
	}
}

func stripImports(s string) string {
	i := strings.Index(s, "import (")
	if i < 0 {
		return s
	}
	j := strings.Index(s[i:], ")")
	return s[:i] + s[i+j:]
}

func fail(f string, a ...any) {
	fmt.Fprintf(os.Stderr, "maporder: "+f+"\n", a...)
	os.Exit(2)
}

const verifrtSrc = `// Package verifrt exists only in the -overlay build of the schedule explorer: every map iteration
// of the module asks it for the key order. Choice 0 is ascending order; choice c is the c-th
// permutation in lexicographic order. The explorer sets Prefix, runs, and reads Trace.
package verifrt

import (
	"cmp"
	"sort"
)

type Point struct {
	Site   string
	N      int // number of keys
	Choice int
	Perms  int // N!
}

var (
	Prefix []int
	Pos    int
	Trace  []Point
	// MaxKeys: ranges with more keys than this are not permuted beyond choice 0 (reported).
	MaxKeys = 4
)

func Reset(prefix []int) {
	Prefix = prefix
	Pos = 0
	Trace = nil
}

func fact(n int) int {
	f := 1
	for i := 2; i <= n; i++ {
		f *= i
	}
	return f
}

func Keys[K cmp.Ordered, V any](m map[K]V, site string) []K {
	keys := make([]K, 0, len(m))
	for k := range m {
		keys = append(keys, k)
	}
	sort.Slice(keys, func(i, j int) bool { return keys[i] < keys[j] })
	n := len(keys)
	if n <= 1 {
		return keys
	}
	perms := 1
	if n <= MaxKeys {
		perms = fact(n)
	}
	choice := 0
	if Pos < len(Prefix) {
		choice = Prefix[Pos]
		if choice < 0 || choice >= perms {
			panic("verifrt: schedule choice out of range while replaying a prefix")
		}
	}
	Pos++
	Trace = append(Trace, Point{Site: site, N: n, Choice: choice, Perms: perms})
	if choice == 0 {
		return keys
	}
	// c-th permutation in lexicographic order (factorial number system)
	pool := append([]K{}, keys...)
	out := make([]K, 0, n)
	c := choice
	for i := n; i >= 1; i-- {
		f := fact(i - 1)
		idx := c / f
		c = c % f
		out = append(out, pool[idx])
		pool = append(pool[:idx], pool[idx+1:]...)
	}
	return out
}
`
