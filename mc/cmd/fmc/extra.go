package main

func extra(cmd string, args []string) (int, bool) { return 0, false }
