// fmc — explicit-state model checker for tendermint/fundraising (runs the real keeper code).
package main

import (
	"encoding/json"
	"flag"
	"fmt"
	"os"
	"path/filepath"
	"runtime"
	"runtime/debug"
	"runtime/pprof"
	"strconv"
	"time"

	"verif/mc/mc"
)

func main() {
	debug.SetGCPercent(400)
	// The SDK's keyring probes the desktop secret service through D-Bus; with no session bus address
	// the D-Bus client auto-launches a dbus-daemon that outlives this process. Point it nowhere.
	if os.Getenv("DBUS_SESSION_BUS_ADDRESS") == "" {
		os.Setenv("DBUS_SESSION_BUS_ADDRESS", "unix:path=/nonexistent/verif-no-dbus")
	}
	if len(os.Args) < 2 {
		fmt.Fprintln(os.Stderr, "usage: fmc explore|replay ...")
		os.Exit(2)
	}
	switch os.Args[1] {
	case "explore":
		os.Exit(explore(os.Args[2:]))
	case "replay":
		os.Exit(replay(os.Args[2:]))
	default:
		if code, ok := extra(os.Args[1], os.Args[2:]); ok {
			os.Exit(code)
		}
		fmt.Fprintln(os.Stderr, "unknown command", os.Args[1])
		os.Exit(2)
	}
}

func envInt(k string, d int) int {
	if v := os.Getenv(k); v != "" {
		if n, err := strconv.Atoi(v); err == nil {
			return n
		}
	}
	return d
}

func explore(args []string) int {
	fs := flag.NewFlagSet("explore", flag.ExitOnError)
	prop := fs.String("prop", "", "property id")
	tier := fs.String("tier", "", "quick|thorough (default: $VERIF_TIER or quick)")
	root := fs.String("root", "/verif", "verif root")
	workers := fs.Int("workers", 0, "worker count (default: cores)")
	budgetS := fs.Int("time", 0, "wall-clock cap in seconds (0 = tier default)")
	prof := fs.String("cpuprofile", "", "write cpu profile")
	fs.Parse(args)
	if *prof != "" {
		f, _ := os.Create(*prof)
		pprof.StartCPUProfile(f)
		defer pprof.StopCPUProfile()
	}
	if *tier == "" {
		*tier = os.Getenv("VERIF_TIER")
	}
	if *tier != "thorough" {
		*tier = "quick"
	}
	seed := envInt("VERIF_SEED", 0)
	if *workers == 0 {
		*workers = runtime.NumCPU()
	}
	plan, err := mc.PlanFor(*prop, *tier)
	if err != nil {
		fmt.Fprintln(os.Stderr, err)
		return 2
	}
	capS := *budgetS
	if capS == 0 {
		capS = plan.TimeCapS
	}
	start := time.Now()
	deadline := start.Add(time.Duration(capS) * time.Second)
	out, err := mc.Execute(plan, mc.ExecOpts{Workers: *workers, Deadline: deadline, Seed: seed, Root: *root, Tier: *tier})
	if err != nil {
		fmt.Fprintln(os.Stderr, "internal error:", err)
		return 2
	}
	out.Evidence.WallS = time.Since(start).Seconds()
	evPath := filepath.Join(*root, "evidence", *prop+".json")
	os.MkdirAll(filepath.Dir(evPath), 0o755)
	bz, _ := json.MarshalIndent(out.Evidence, "", " ")
	if err := os.WriteFile(evPath, bz, 0o644); err != nil {
		fmt.Fprintln(os.Stderr, "cannot write evidence:", err)
		return 2
	}
	for _, l := range out.Lines {
		fmt.Println(l)
	}
	cov := out.Evidence.Coverage
	if _, ok := cov["states"]; ok {
		fmt.Printf("property=%s tier=%s states=%v transitions=%v exhaustive=%v violations=%d known=%d wall=%.1fs\n",
			*prop, *tier, cov["states"], cov["transitions"], cov["exhaustive"], out.NewViolations, out.KnownHits, out.Evidence.WallS)
	} else {
		fmt.Printf("property=%s tier=%s evaluations=%v distinct_nontrivial=%v exhaustive=%v violations=%d known=%d wall=%.1fs\n",
			*prop, *tier, cov["evaluations"], cov["distinct_nontrivial"], cov["exhaustive"], out.NewViolations, out.KnownHits, out.Evidence.WallS)
	}
	if out.NewViolations > 0 {
		return 1
	}
	return 0
}

func replay(args []string) int {
	if len(args) < 1 {
		fmt.Fprintln(os.Stderr, "usage: fmc replay <file>")
		return 2
	}
	ok, msg, err := mc.ReplayFromFile(args[0])
	if err != nil {
		fmt.Fprintln(os.Stderr, "internal error:", err)
		return 2
	}
	fmt.Println(msg)
	if !ok {
		return 1
	}
	return 0
}
