//go:build verif_order

// fmcorder — schedule explorer for map iteration orders (C14). Only builds with the -overlay written
// by maporder (package verifrt is virtual).
package main

import (
	"crypto/sha256"
	"encoding/hex"
	"encoding/json"
	"flag"
	"fmt"
	"os"
	"sort"
	"strings"

	abci "github.com/cometbft/cometbft/abci/types"
	sdk "github.com/cosmos/cosmos-sdk/types"

	"github.com/tendermint/fundraising/x/fundraising/verifrt"

	"verif/mc/mc"
	"verif/mc/world"
)

type runOut struct {
	digest  string
	parts   [3]string // events, store, balances
	trace   []verifrt.Point
	choices []int
	evLines []string
}

func evString(evs []abci.Event) []string {
	var out []string
	for _, e := range evs {
		var as []string
		for _, a := range e.Attributes {
			as = append(as, a.Key+"="+a.Value)
		}
		out = append(out, e.Type+"{"+strings.Join(as, ",")+"}")
	}
	return out
}

func runOnce(w *world.World, ops []mc.Op, prefix []int) runOut {
	verifrt.Reset(prefix)
	ctx := w.Base()
	var evLines []string
	for i, op := range ops {
		cctx, _ := ctx.CacheContext()
		cctx = cctx.WithEventManager(sdk.NewEventManager())
		pctx, res := op.Apply(w, cctx)
		status := "ok"
		if !res.OK() {
			status = "err:" + res.ErrStr
		}
		evLines = append(evLines, fmt.Sprintf("op%d %s %s", i, op.Kind, status))
		evLines = append(evLines, evString(res.Events)...)
		ctx = pctx
	}
	st, err := w.Snapshot(ctx)
	if err != nil {
		panic(err)
	}
	var bal []string
	for a, c := range st.Bal {
		if s := c.String(); s != "" {
			bal = append(bal, world.NameOf(a)+"="+s)
		}
	}
	sort.Strings(bal)
	out := runOut{trace: append([]verifrt.Point{}, verifrt.Trace...), evLines: evLines}
	for _, p := range out.trace {
		out.choices = append(out.choices, p.Choice)
	}
	h := func(s string) string { x := sha256.Sum256([]byte(s)); return hex.EncodeToString(x[:8]) }
	out.parts = [3]string{h(strings.Join(evLines, "\n")), st.RawModule[:16], h(strings.Join(bal, ";"))}
	out.digest = strings.Join(out.parts[:], "/")
	return out
}

type histResult struct {
	Name        string         `json:"name"`
	Schedules   int            `json:"schedules"`
	Points      int            `json:"choice_points_in_canonical_run"`
	Sites       []string       `json:"sites"`
	Outcomes    int            `json:"distinct_outcomes"`
	Canonical   string         `json:"canonical_digest"`
	CappedSites []string       `json:"ranges_over_more_keys_than_permuted,omitempty"`
	Violations  []mc.Violation `json:"violations,omitempty"`
}

func main() {
	tier := flag.String("tier", "quick", "")
	shard := flag.Int("shard", 0, "")
	of := flag.Int("of", 1, "")
	bound := flag.Int("bound", 2, "deviation bound (ranges off the canonical order)")
	canonOnly := flag.Bool("canon-only", false, "run only the canonical schedule of every history (cross-process comparison)")
	flag.Parse()
	hs := mc.OrderHistories(*tier)
	var results []histResult
	for i, h := range hs {
		if !*canonOnly && i%*of != *shard && i != 0 { // history 0 is run by every process (cross-process comparison)
			continue
		}
		w, err := world.New(h.Cfg)
		if err != nil {
			fmt.Fprintln(os.Stderr, err)
			os.Exit(2)
		}
		canon := runOnce(w, h.Ops, nil)
		hr := histResult{Name: h.Name, Points: len(canon.trace), Canonical: canon.digest}
		// the same history with the same schedule, executed again in this process, must give identical
		// observations: that is the property itself (the harness owns every other source of
		// nondeterminism: fixed keys, block times and genesis)
		again := runOnce(w, h.Ops, canon.choices)
		if again.digest != canon.digest {
			var comp []string
			for i, n := range []string{"events", "store", "balances"} {
				if again.parts[i] != canon.parts[i] {
					comp = append(comp, n)
				}
			}
			hr.Violations = append(hr.Violations, mc.Violation{Prop: "C14", Sig: "replay-differs/" + strings.Join(comp, "+"), Scen: h.Name, Hist: h.Ops,
				Detail: fmt.Sprintf("history %s executed twice in one process with the same iteration orders gives different %v; first differing event line: %s", h.Name, comp, firstDiff(canon.evLines, again.evLines))})
			results = append(results, hr)
			continue
		}
		if *canonOnly {
			results = append(results, hr)
			continue
		}
		siteSet := map[string]bool{}
		outcomes := map[string]bool{canon.digest: true}
		for _, p := range canon.trace {
			siteSet[p.Site] = true
			if p.N > verifrt.MaxKeys {
				hr.CappedSites = append(hr.CappedSites, fmt.Sprintf("%s(%d keys)", p.Site, p.N))
			}
		}
		for s := range siteSet {
			hr.Sites = append(hr.Sites, s)
		}
		sort.Strings(hr.Sites)
		seenSig := map[string]bool{}
		memo := map[string]runOut{}
		culprit := map[string]bool{} // sites whose deviation alone changes the outcome
		runMemo := func(prefix []int) (runOut, bool) {
			k := fmt.Sprint(prefix)
			if x, ok := memo[k]; ok {
				return x, false
			}
			x := runOnce(w, h.Ops, prefix)
			memo[k] = x
			return x, true
		}
		var explore func(prefix []int, b int)
		explore = func(prefix []int, b int) {
			x, fresh := runMemo(prefix)
			if fresh {
				hr.Schedules++
				outcomes[x.digest] = true
				if x.digest != canon.digest {
					var devSites []string
					explained := false
					for i, c := range prefix {
						if c != 0 && i < len(x.trace) {
							devSites = append(devSites, x.trace[i].Site)
							if culprit[x.trace[i].Site] {
								explained = true
							}
						}
					}
					if len(devSites) == 1 {
						culprit[devSites[0]] = true
					}
					var comp []string
					for i, n := range []string{"events", "store", "balances"} {
						if x.parts[i] != canon.parts[i] {
							comp = append(comp, n)
						}
					}
					sig := "order-dependent/" + strings.Join(comp, "+") + "/" + strings.Join(devSites, "&")
					// a multi-deviation schedule containing a site that already fails on its own adds nothing
					if !(explained && len(devSites) > 1) && !seenSig[sig] {
						seenSig[sig] = true
						diff := firstDiff(canon.evLines, x.evLines)
						hr.Violations = append(hr.Violations, mc.Violation{Prop: "C14", Sig: sig, Scen: h.Name, Hist: h.Ops,
							Detail: fmt.Sprintf("history %s: iteration-order schedule %v (canonical: all 0; deviating ranges: %v) changes %v; first differing event line: %s", h.Name, prefix, devSites, comp, diff)})
					}
				}
			}
			for i := len(prefix); i < len(x.trace); i++ {
				cost := 0
				for _, c := range x.choices[:i] {
					if c != 0 {
						cost++
					}
				}
				if cost+1 > b {
					continue
				}
				for alt := 1; alt < x.trace[i].Perms; alt++ {
					explore(append(append([]int{}, x.choices[:i]...), alt), b)
				}
			}
		}
		// iterative bounding: everything with 1 deviating range, then 2, ... (the first
		// counterexample has the fewest deviations and names its range)
		for b := 1; b <= *bound; b++ {
			explore(nil, b)
		}
		hr.Outcomes = len(outcomes)
		results = append(results, hr)
	}
	if *shard == 0 && !*canonOnly {
		// listener registration order: InvokeSetHooks ranges over a map of module names
		h0 := hs[0]
		w, err := world.New(h0.Cfg)
		if err != nil {
			fmt.Fprintln(os.Stderr, err)
			os.Exit(2)
		}
		verifrt.Reset(nil)
		canon, err := mc.HookOrderProbe(w)
		if err != nil {
			fmt.Fprintln(os.Stderr, "hook order probe:", err)
			os.Exit(2)
		}
		hr := histResult{Name: "listener-registration-order(InvokeSetHooks, 3 modules)", Canonical: canon}
		sites := map[string]bool{}
		for _, p := range verifrt.Trace {
			sites[p.Site] = true
			hr.Points++
		}
		outcomes := map[string]bool{canon: true}
		for c := 0; c < 6; c++ {
			verifrt.Reset([]int{c})
			got, err := mc.HookOrderProbe(w)
			if err != nil {
				fmt.Fprintln(os.Stderr, "hook order probe:", err)
				os.Exit(2)
			}
			hr.Schedules++
			outcomes[got] = true
			if got != canon && len(hr.Violations) == 0 {
				site := "?"
				if len(verifrt.Trace) > 0 {
					site = verifrt.Trace[0].Site
				}
				hr.Violations = append(hr.Violations, mc.Violation{Prop: "C14", Sig: "order-dependent/listener-order/" + site,
					Detail: fmt.Sprintf("listeners registered through InvokeSetHooks are called in the order %q under key permutation %d but %q canonically", got, c, canon)})
			}
		}
		for s := range sites {
			hr.Sites = append(hr.Sites, s)
		}
		hr.Outcomes = len(outcomes)
		results = append(results, hr)
	}
	bz, _ := json.Marshal(results)
	fmt.Println(string(bz))
}

func firstDiff(a, b []string) string {
	for i := 0; i < len(a) && i < len(b); i++ {
		if a[i] != b[i] {
			return fmt.Sprintf("#%d canonical %q vs %q", i, trunc(a[i]), trunc(b[i]))
		}
	}
	return fmt.Sprintf("lengths %d vs %d", len(a), len(b))
}

func trunc(s string) string {
	if len(s) > 160 {
		return s[:160] + "…"
	}
	return s
}
