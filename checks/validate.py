#!/usr/bin/env python3
"""Validates MANIFEST.json and every evidence file against the given schemas."""
import json, sys, glob, jsonschema
m = json.load(open('/verif/MANIFEST.json'))
jsonschema.validate(m, json.load(open('/root/.vp/MANIFEST.schema.json')))
props = [json.loads(l)['id'] for l in open('/verif/properties.jsonl')]
claimed = [c['property_id'] for c in m['checks']]
na = [x['property_id'] for x in m.get('not_applicable', [])]
missing = [p for p in props if p not in claimed and p not in na]
print("manifest ok; claimed", len(claimed), "not_applicable", len(na), "unlisted", missing)
es = json.load(open('/root/.vp/EVIDENCE.schema.json'))
for f in sorted(glob.glob('/verif/evidence/*.json')):
    try:
        jsonschema.validate(json.load(open(f)), es); print("ok", f)
    except Exception as e:
        print("INVALID", f, str(e)[:300]); sys.exit(1)
