#!/usr/bin/env python3
"""Prints the table of DESIGN.md §12.8 from the committed quick evidence files and the log of a
thorough dry run (lines "property=Cnn tier=thorough states=... transitions=... exhaustive=... wall=...").

usage: checks/coverage_table.py [thorough-log]
"""
import json, os, re, sys

root = os.path.dirname(os.path.dirname(os.path.abspath(__file__)))
thorough = {}
if len(sys.argv) > 1:
    for line in open(sys.argv[1], errors="replace"):
        m = re.match(r"property=(C\d+) tier=thorough (.*)", line.strip())
        if m:
            kv = dict(x.split("=", 1) for x in m.group(2).split() if "=" in x)
            thorough[m.group(1)] = kv


def fmt(n):
    return f"{int(n):,}"


print("| property | quick | thorough |")
print("|---|---|---|")
for i in range(1, 21):
    pid = f"C{i:02d}"
    e = json.load(open(os.path.join(root, "evidence", pid + ".json")))
    c = e["coverage"]
    wall = e.get("wall_s") or c.get("wall_s") or 0
    ex = "exhaustive" if c.get("exhaustive") else "capped"
    if "states" in c or "scenarios" in c and any("states" in s for s in c["scenarios"]):
        states = c.get("states") or sum(s.get("states", 0) for s in c.get("scenarios", []))
        trans = c.get("transitions") or c.get("evaluations") or sum(s.get("transitions", 0) for s in c.get("scenarios", []))
        traces = (c.get("abci_conformance") or {}).get("scenarios", [])
        ntr = sum(s.get("replayed", 0) for s in traces)
        q = f"{fmt(states)} states / {fmt(trans)} transitions, {ntr} pipeline traces, {ex}, {wall:.0f} s"
    else:
        q = f"{fmt(c.get('evaluations', 0))} cases ({fmt(c.get('distinct_nontrivial', 0))} distinct non-trivial), {ex}, {wall:.0f} s"
    t = thorough.get(pid)
    if t is None:
        tt = "not run in this dry run"
    elif "states" in t:
        tt = f"{fmt(t['states'])} states / {fmt(t['transitions'])} transitions, {'exhaustive' if t['exhaustive']=='true' else 'capped'}, known findings hit {t['known']}, {t['wall']}"
    else:
        tt = f"{fmt(t['evaluations'])} cases, {'exhaustive' if t['exhaustive']=='true' else 'capped'}, known findings hit {t['known']}, {t['wall']}"
    print(f"| {pid} | {q} | {tt} |")
