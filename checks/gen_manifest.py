#!/usr/bin/env python3
"""Generates /verif/MANIFEST.json from the table below (kept in one place so it stays valid)."""
import json

MC = "explicit-state model checking of the implementation (exhaustive bounded DFS over real keeper code)"
TRUST = "bounded alphabets and budgets (reported in the evidence); Cosmos SDK bank/distribution/store, math and collections trusted"

CLAIMED = {
 "C01": dict(cat="model_checking", tech=MC, ref="DESIGN.md §5 C01",
   text="every history of the fixed-price and batch scenarios within the stated budgets is executed on the real code; after every transition all three escrows of every auction are compared with the record-derived expectation in exact rationals",
   note=TRUST),
 "C02": dict(cat="model_checking", tech=MC, ref="DESIGN.md §5 C02",
   text="same exhaustive exploration; per-transition zero-sum / supply / transfers / exact-due obligations whose conjunction gives the end-to-end statement by induction over the history",
   note=TRUST + "; vesting/locked user accounts are not in the alphabet"),
 "C07": dict(cat="model_checking", tech=MC + " + exhaustive single-fault enumeration over the bank calls of every distinct effective block",
   ref="DESIGN.md §5 C07",
   text="(a) every explored state of the lifecycle and multi-auction scenarios x every later block instant: the module's registered block hook returns nil and does not panic; (b) for every distinct (state, block time) whose block calls the bank, each call index in turn returns an injected error and the hook must return an error wrapping it",
   note=TRUST + "; failures other than bank-transfer errors (store errors) are not injected; at most 3 concurrent auctions"),
}

PENDING = {}  # property id -> reason, for properties not claimed (yet)

props = [json.loads(l)["id"] for l in open("/verif/properties.jsonl")]
checks = []
for pid in props:
    if pid not in CLAIMED:
        continue
    c = CLAIMED[pid]
    checks.append({
        "property_id": pid,
        "quick_cmd": c.get("quick", f"bash /verif/checks/run.sh {pid} quick"),
        "thorough_cmd": c.get("thorough", f"bash /verif/checks/run.sh {pid} thorough"),
        "evidence_file": f"/verif/evidence/{pid}.json",
        "replay_cmd_template": c.get("replay", "/verif/bin/fmc replay {path}"),
        "engine": "fmc",
        "level_claimed": {"category": c["cat"], "text": c["text"], "design_ref": c["ref"]},
        "level_note": c["note"],
        "technique": c["tech"],
    })
na = [{"property_id": p, "reason": PENDING.get(p, "not claimed yet: its check is still under construction in this build (see DESIGN.md §10 for the order)")}
      for p in props if p not in CLAIMED]
m = {
 "version": 1,
 "setup_cmd": "bash /verif/checks/setup.sh",
 "hooks": {
  "guard": "verif",
  "enable": "the harness is built with `go build -tags verif` against /repo through a go.mod replace; no guarded file exists in /repo (fault and listener injection use constructor arguments, iteration-order control uses a build-time -overlay)",
  "baseline_off_cmd": "cd /repo && GOFLAGS=-mod=mod GOPROXY=off GOSUMDB=off go test -vet=off -count=1 -timeout 25m ./...",
  "source_commits": [],
  "add_only": True,
 },
 "engines": [{
  "name": "fmc", "path": "/verif/mc", "serves_properties": sorted(CLAIMED),
  "kind_free_text": "hand-written explicit-state model checker in Go: DFS over the real keeper/app code with CacheContext branching, canonical-state dedup with budget domination, per-transition monitors against a big.Rat reference model",
 }],
 "checks": checks,
 "not_applicable": na,
 "notes": "All checks rebuild the explorer from /repo's working tree (go.mod replace). Known findings live in /verif/known_findings.json.",
}
json.dump(m, open("/verif/MANIFEST.json", "w"), indent=1, ensure_ascii=False)
print("wrote MANIFEST.json:", len(checks), "claimed,", len(na), "not claimed")
