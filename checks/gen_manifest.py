#!/usr/bin/env python3
"""Generates /verif/MANIFEST.json from the table below (kept in one place so it stays valid)."""
import json

MC = "explicit-state model checking of the implementation (exhaustive bounded DFS over real keeper code)"
TRUST = "bounded alphabets and budgets (reported in the evidence); Cosmos SDK bank/distribution/store, math and collections trusted"

CLAIMED = {
 "C01": dict(cat="model_checking", tech=MC, ref="DESIGN.md §5 C01",
   text="every history of the fixed-price and batch scenarios within the stated budgets is executed on the real code; after every transition all three escrows of every auction are compared with the record-derived expectation in exact rationals",
   note=TRUST),
 "C02": dict(cat="model_checking", tech=MC, ref="DESIGN.md §5 C02",
   text="same exhaustive exploration; per-transition zero-sum / supply / transfers / exact-due obligations whose conjunction gives the end-to-end statement by induction over the history",
   note=TRUST + "; vesting/locked user accounts are not in the alphabet"),
 "C03": dict(cat="model_checking", tech=MC + "; order-book enumeration against a by-definition reference (linear scan, exact rationals)", ref="DESIGN.md §5 C03",
   text="every order book of <=3 (quick) / <=4 (thorough) real PlaceBid calls over bidder x kind x price x amount, under several cap / supply assignments and a cap lowered after the bids, plus every book reached through modifications: the MatchingInfo of the real CalculateBatchAllocation and the coins delivered by the real settlement block are compared with the definition of the clearing price",
   note=TRUST + "; books of more than 4 bids and prices outside the alphabet are not covered"),
 "C04": dict(cat="model_checking", tech=MC, ref="DESIGN.md §5 C04",
   text="same enumeration plus fixed-price bid sequences: at every settlement each bidder's payment (reservation minus refund, read off the real bank transfers) is checked against P*q <= paid < P*q + matched bids, <= reservation, limit price; every accepted fixed-price bid against its rounding bound, all in exact rationals",
   note=TRUST + "; the for-all-prices arithmetic fact is established on the price x amount grid only"),
 "C05": dict(cat="model_checking", tech=MC, ref="DESIGN.md §5 C05",
   text="every accepted fixed-price bid is checked against the cap and remainder of its pre-state and every settlement (both auction types, multi-auction scenario included) against cap, request at the clearing price and offered amount",
   note=TRUST),
 "C06": dict(cat="model_checking", tech=MC, ref="DESIGN.md §5 C06",
   text="all fixed-price bid sequences within the budget by allow-listed and outsider accounts in both denominations; each accept/reject decision is compared in both directions with the reference predicate, the published remainder with offered minus accepted in every state, recorded bids are never changed",
   note=TRUST),
 "C08": dict(cat="model_checking", tech=MC, ref="DESIGN.md §5 C08",
   text="lifecycle scenarios (fixed, batch with extension, multi-auction) with blocks before / exactly at / after every boundary instant, skipped instants and +1h ticks, and bids / modifications / cancels attempted in every status: status and end times of every auction after every transition equal the reference step function's",
   note=TRUST + "; interpretation I1 (one lifecycle step per block, chosen from the status at the start of the block)"),
 "C09": dict(cat="model_checking", tech=MC, ref="DESIGN.md §5 C09",
   text="8 schedule shapes (1-4 instalments, incl. 1e-18 weights) x proceeds grid x every block pattern over the release instants: the stored split equals floor(proceeds x weight) / remainder-to-last and every block pays exactly the instalments due and unreleased at its start, flags flip with the payment and never again",
   note=TRUST + "; weights and proceeds outside the grid, schedules of 5-100 instalments are not covered"),
 "C11": dict(cat="model_checking", tech=MC, ref="DESIGN.md §5 C11",
   text="chains of modifications of every bid by owner, other bidder and outsider over a (price, amount) grid with one representative per rejection reason; decisions compared in both directions with the reference predicate; identity, monotonicity and charge = reservation increase on acceptance; in every transition no bid disappears or shrinks",
   note=TRUST),
 "C12": dict(cat="model_checking", tech=MC, ref="DESIGN.md §5 C12",
   text="cancel attempted by auctioneer / other auctioneer / bidder on every auction in every status and position relative to its start; decision = (signer is auctioneer and status is waiting); refund, escrow, remainder and status checked on acceptance; cancelled is permanent and only produced by a cancel message",
   note=TRUST),
 "C13": dict(cat="model_checking", tech=MC + " + bounded-liveness continuation from every distinct state", ref="DESIGN.md §5 C13",
   text="order-book evolutions between end times for max rounds 0-2, rates 0.25/0.5/1 (thorough +0.1), periods 0/1/2: decision at every end-time block equals the exact-rational rule, appended end time = last + period, recorded matched count = reference count; from every distinct open state one block per successive end time must settle within the rounds left",
   note=TRUST + "; interpretation I3 (rates that depend on 18-decimal rounding of cur/prev are kept out of the alphabet); round limits above 2 only in the creation-precondition check"),
 "C18": dict(cat="model_checking", tech=MC + " with a per-state field-alphabet probe menu", ref="DESIGN.md §5 C18",
   text="in every explored state of the lifecycle / multi-auction / poor-bidder scenarios every message type is delivered with one field at a time (thorough: every pair) replaced by invalid and boundary values; every decision is compared in both directions with a reference written from the message rules, every rejection with an unchanged store dump, balances and community pool at the transaction boundary",
   note=TRUST + "; interpretation I5 (where the documents are silent the reference follows ValidateBasic + the named guards); MsgAddAllowedBidder is decided by C10"),
 "C19": dict(cat="model_checking", tech=MC + " + run-wide non-interference table (differential oracle between states that agree on one auction)", ref="DESIGN.md §5 C19",
   text="histories over 2-3 concurrent auctions sharing auctioneer, bidders and denominations (crossed and twin), failed operations included: byte-level frame condition for every non-target auction around every transition, agreed terms before/after, id assignment, pairwise distinct escrow addresses, a table keyed by (projection of X, affordability class of the actor's balances, params, time, op) that flags different outcomes when only other auctions differ, and 40 direct keeper creations failing at a listener veto / bank transfer (writes kept or rolled back) followed by another creation (no id reused, no record overwritten, new escrow exact)",
   note=TRUST + "; at most 3 concurrent auctions"),
 "C15": dict(cat="model_checking", tech=MC + " + lock-step differential continuation of original and re-imported state", ref="DESIGN.md §5 C15",
   text="at every distinct module state of the multi-auction, early-release batch and fixed lifecycle scenarios: ExportGenesis -> JSON -> Validate -> InitGenesis into the wiped store -> byte comparison of the seven collections -> lock-step continuation over every single menu op, every pair (thorough: triple) of later block instants and bid-then-block sequences",
   note=TRUST + "; interpretation I7 (same state = the seven collections named by the statement; the rest is judged through identical evolution); bank balances are carried over as they are (the bank module's own genesis is trusted)"),
 "C16": dict(cat="model_checking", tech=MC + " with a per-state query alphabet against a reference filter over the raw store dump", ref="DESIGN.md §5 C16",
   text="is_matched flags vs contribution to the bidder's receipt and published matched price vs clearing price at every settlement (extended rounds with outbid provisional winners included), released flags vs payments, results frozen after settlement; in every distinct state of the query scenarios every by-id and list query with every filter combination (every ParseBool spelling of is_matched) and four pagination modes (unlimited+total, key continuation, offset, reverse) is compared with the stored objects",
   note=TRUST + "; interpretation I6 (a bid received coins iff it contributed under price-then-id priority and its bidder received coins); two listed known findings (ListAllowedBidder / ListVestingQueue ignore auction_id) cannot be repaired without failing the repository's own unedited tests"),
 "C10": dict(cat="model_checking", tech=MC + "; the message is in the menu of every state of a process that links the application like the node binary does", ref="DESIGN.md §5 C10",
   text="MsgAddAllowedBidder signed by each bidder, an outsider and the auctioneers is delivered through the application's message router in every explored state of the fixed / batch / multi-auction lifecycle scenarios and must be rejected with the allow-list byte-identical; no other message changes the allow-list; every accepted bid's signer is listed in the pre-state and every stored bid's bidder is listed in every state; in addition the message, really signed by the would-be bidder, is delivered through InitChain/FinalizeBlock/Commit in ten situations and must be refused by the node",
   note=TRUST + "; configuration covered: the import graph of cmd/fundraisingd (app + cmd packages, nothing from testutil/simulation imported by the harness itself); the -X link flag documented for testing builds is by definition out of scope"),
 "C17": dict(cat="fault_enumeration", tech="exhaustive enumeration of (operation, pre-state) x listeners x failing position x failing hook x registration path on the real keeper with recording / vetoing listeners", ref="DESIGN.md §5 C17",
   text="all 426 cases of the product are executed on a second real keeper over the application's own store: exact call sequence, arguments vs message / committed record / real transfers, announced record not yet visible to the listener, veto => wrapped error and nothing committed at the transaction boundary, settlement veto reported by the block hook",
   note=TRUST + "; depinject wiring inside app.New is not exercised (no provider can be added from outside); at most 3 listeners; interpretation I4"),
 "C14": dict(cat="exploration", tech="schedule exploration (iterative deviation bounding) over the iteration order of every map range, owned through a type-directed build-time -overlay rewrite", ref="DESIGN.md §4, §5 C14",
   text="every map range / maps.Keys call of the module is rewritten (overlay, /repo untouched) to take its key order from a scheduler; for each history of the catalogue (2-3 bidder settlements of fixed and batch auctions, an extended round, auctions in different statuses acting in one block, creations without start time, a list-valued allow-list call with a refused entry whose partial writes are kept, listener registration; thorough: 4 bidders) every schedule with <=2 (thorough <=3) ranges off the canonical order, each trying all permutations, must give byte-identical ordered events, store dump and balances; canonical digests are compared across worker processes",
   note=TRUST + "; a new map range is picked up automatically, a form the rewriter cannot own fails the check loudly; containers inside the SDK are out of scope"),
 "C20": dict(cat="exploration", tech="exhaustive walk of the built binary's command tree + resolution of every AutoCLI binding against the registered descriptors + sentinel round-trip of every tx argument (+ one-node chain in the thorough tier)", ref="DESIGN.md §5 C20",
   text="the default node binary is built from the working tree and must start; every command option is resolved against the protobuf descriptors the way AutoCLI does; every node of `query|tx fundraising` answers --help; every custom-bound tx leaf is generated offline with one sentinel per argument and the JSON compared field by field; every query RPC's real answer is rendered with AutoCLI's encoder; thorough: a loopback one-node chain from an explorer-exported genesis produces blocks and answers every query leaf",
   note=TRUST + "; 18 listed known findings: decimal arguments are sent x10^-18 by client/v2 v2.0.0-beta.4 (8 command/argument pairs) and five query commands cannot display answers that contain a singular Coin annotated legacy_coins (needs proto regeneration, impossible offline); UpdateParams and AddAllowedBidder are documented exemptions from reachability"),
 "C07": dict(cat="model_checking", tech=MC + " + exhaustive single-fault enumeration over the bank calls of every distinct effective block",
   ref="DESIGN.md §5 C07",
   text="(a) every explored state of the lifecycle and multi-auction scenarios x every later block instant: the module's registered block hook returns nil and does not panic; (b) for every distinct (state, block time) whose block calls the bank, each call index in turn returns an injected error and the hook must return an error wrapping it",
   note=TRUST + "; failures other than bank-transfer errors (store errors) are not injected; at most 3 concurrent auctions"),
}

PENDING = {}  # property id -> reason, for properties not claimed (yet)

props = [json.loads(l)["id"] for l in open("/verif/properties.jsonl")]
checks = []
for pid in props:
    if pid not in CLAIMED:
        continue
    c = CLAIMED[pid]
    checks.append({
        "property_id": pid,
        "quick_cmd": c.get("quick", f"bash /verif/checks/run.sh {pid} quick"),
        "thorough_cmd": c.get("thorough", f"bash /verif/checks/run.sh {pid} thorough"),
        "evidence_file": f"/verif/evidence/{pid}.json",
        "replay_cmd_template": c.get("replay", "/verif/bin/fmc replay {path}"),
        "engine": "fmc",
        "level_claimed": {"category": c["cat"], "text": c["text"], "design_ref": c["ref"]},
        "level_note": c["note"],
        "technique": c["tech"],
    })
na = [{"property_id": p, "reason": PENDING.get(p, "not claimed yet: its check is still under construction in this build (see DESIGN.md §10 for the order)")}
      for p in props if p not in CLAIMED]
m = {
 "version": 1,
 "setup_cmd": "bash /verif/checks/setup.sh",
 "hooks": {
  "guard": "verif",
  "enable": "the harness is built with `go build -tags verif` against /repo through a go.mod replace; no guarded file exists in /repo (fault and listener injection use constructor arguments, iteration-order control uses a build-time -overlay)",
  "baseline_off_cmd": "cd /repo && GOFLAGS=-mod=mod GOPROXY=off GOSUMDB=off go test -vet=off -count=1 -timeout 25m ./...",
  "source_commits": [],
  "add_only": True,
 },
 "engines": [{
  "name": "fmc", "path": "/verif/mc", "serves_properties": sorted(CLAIMED),
  "kind_free_text": "hand-written explicit-state model checker in Go: DFS over the real keeper/app code with CacheContext branching, canonical-state dedup with budget domination, per-transition monitors against a big.Rat reference model",
 }],
 "checks": checks,
 "not_applicable": na,
 "notes": "All checks rebuild the explorer from /repo's working tree (go.mod replace). Known findings live in /verif/known_findings.json.",
}
json.dump(m, open("/verif/MANIFEST.json", "w"), indent=1, ensure_ascii=False)
print("wrote MANIFEST.json:", len(checks), "claimed,", len(na), "not claimed")
