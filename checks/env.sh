# Common environment of every check (sourced). Offline, local toolchain, module replace => /repo.
export GOFLAGS=-mod=mod GOPROXY=off GOSUMDB=off GOTOOLCHAIN=local
export VERIF_ROOT="${VERIF_ROOT:-/verif}"
export PATH="$PATH:/usr/local/go/bin"
# The SDK's keyring links a D-Bus client that, with no session bus address in the environment, auto-launches
# a dbus-daemon when the process starts (package initialisation) and leaves it behind. Point it nowhere, for
# the explorer, its worker processes and every invocation of the node binary.
export DBUS_SESSION_BUS_ADDRESS="${DBUS_SESSION_BUS_ADDRESS:-unix:path=/nonexistent/verif-no-dbus}"
build_fmc() {
  # Rebuilds the explorer against /repo's current working tree (incremental; go.mod replaces the
  # module path with /repo, so any edit there is compiled in). go.sum follows the repository's.
  local repo="${VERIF_REPO:-/repo}"
  if [ "$repo" != /repo ]; then
    # isolated run on a scratch copy of the repository (never used by the registered commands)
    ( cd "$VERIF_ROOT/mc" && go mod edit -replace "github.com/tendermint/fundraising=$repo" ) || return 2
  fi
  ( cd "$VERIF_ROOT/mc" && cp "$repo/go.sum" go.sum && \
    go build -tags verif -o "$VERIF_ROOT/bin/fmc" ./cmd/fmc ) || { echo "BUILD FAILED (the harness does not compile against /repo's working tree)"; return 2; }
}
