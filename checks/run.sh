#!/bin/bash
# usage: checks/run.sh <property id> [quick|thorough]
# exit 0 = property held on everything explored; exit 1 + "VIOLATION property=<id> replay=<path>" otherwise.
set -u
here="$(cd "$(dirname "$0")" && pwd)"
. "$here/env.sh"
prop="$1"; tier="${2:-${VERIF_TIER:-quick}}"
mkdir -p "$VERIF_ROOT/bin" "$VERIF_ROOT/evidence" "$VERIF_ROOT/replays"
build_fmc || exit 2
cd "$VERIF_ROOT"
# VERIF_TIME_S overrides the wall-clock cap of the tier (used by the seeded selftest on a busy machine)
exec "$VERIF_ROOT/bin/fmc" explore -prop "$prop" -tier "$tier" -root "$VERIF_ROOT" ${VERIF_TIME_S:+-time $VERIF_TIME_S}
