#!/bin/bash
# Run once after a fresh restore, offline: pre-build the explorer so that the first check does not
# pay the cold build.
set -u
here="$(cd "$(dirname "$0")" && pwd)"
. "$here/env.sh"
mkdir -p "$VERIF_ROOT/bin" "$VERIF_ROOT/evidence" "$VERIF_ROOT/replays"
build_fmc || exit 1
echo "setup ok"
